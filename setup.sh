#!/bin/bash
# Offline setup: the deciding oracles need only /venv (the repository's own interpreter).  The optional secondary
# monitors (icontract contracts, jsonschema cross-check) come from the offline wheelhouse into the git-ignored .deps/.
cd "$(dirname "$0")"
if [ ! -d .deps/icontract ]; then
  /venv/bin/pip install -q --no-index --find-links /opt/veriftools/wheels --target .deps icontract jsonschema >/dev/null 2>&1 || echo "note: wheelhouse install failed; contract / jsonschema cross-checks will be skipped"
fi
/venv/bin/python -c "import openapi_python_client, httpx, attrs, dateutil; print('setup ok: generator', openapi_python_client.__version__, 'from', openapi_python_client.__file__)"
