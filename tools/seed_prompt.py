"""Write the prompt files for a wave of seeded-change sub-agents: tools/seed_prompt.py <wave> <Cxx> [<Cxx> ...]
Each prompt contains only the property text and the agent's own scratch worktree path (/tmp/wt<wave>-<id>)."""
import json
import sys

TMPL = '''You are helping to evaluate a verification effort by writing realistic *property-breaking changes* (seeded defects) for an open-source project. Work ONLY inside the scratch git worktree {wt} (a checkout of openapi-generators/openapi-python-client, a code generator that turns OpenAPI documents into Python httpx client packages). Do not read or touch anything under /verif or /repo. Do not use the network.

THE PROPERTY (this is all the specification you get):

{prop}

YOUR TASK: produce TWO independent source changes (call them A and B) to the generator in {wt}/openapi_python_client/ (Python code and/or its Jinja templates under openapi_python_client/templates/) such that each change, on its own:
  1. breaks the property above for SOME inputs,
  2. still "compiles" (the package imports, the CLI works) and the project's existing test suite still passes with it,
  3. is subtle: it must need something specific to manifest - an unusual but legitimate input, a particular combination of features or options, a multi-step sequence of commands, a particular ordering / hash seed, or two cooperating sites that each look fine alone. A change that ordinary use (e.g. generating the project's own sample documents) would expose at once is NOT wanted. It should look like a plausible refactoring slip or "optimisation", not like vandalism.
  A and B should exercise different mechanisms / code sites. {diversity}

HOW TO RUN THINGS: the interpreter is /venv/bin/python (the project's dependencies are installed there, but its editable install points at another checkout, so ALWAYS set PYTHONPATH={wt} when running anything, e.g.
    cd {wt} && PYTHONPATH={wt} /venv/bin/python -m pytest -q -p no:cacheprovider tests end_to_end_tests/functional_tests
(that is the relevant part of the existing suite: 397 passed, 4 skipped is the expected baseline; run it with your change applied and make sure nothing new fails).
To generate a client from a document programmatically:
    from pathlib import Path; import openapi_python_client as opc; from openapi_python_client.config import Config, ConfigFile, MetaType
    cfg = Config.from_sources(ConfigFile(post_hooks=[]), MetaType.NONE, Path("doc.json"), "utf-8", False, Path("outdir"))
    errors = opc.generate(config=cfg)      # list of diagnostics; the package is written to outdir/
or with the CLI: PYTHONPATH={wt} /venv/bin/python -m openapi_python_client generate --path doc.json --meta none --output-path outdir
Generated packages need httpx, attrs and python-dateutil, which /venv has; import them by putting the parent of outdir on sys.path. httpx.MockTransport is handy to observe requests without a network (clients accept httpx_args={{"transport": ...}}).

DELIVERABLES - create the directory {wt}/SEEDED/ with, for each change X in {{A, B}}:
  - SEEDED/X/patch.diff : the change as a unified diff produced with `git -C {wt} diff` (it must apply with `git apply` to a clean checkout of this same commit). Produce A's diff with only A applied and B's diff with only B applied (save each with `git -C {wt} diff > file` and reset with `git -C {wt} checkout -- openapi_python_client` between them; do NOT use `git stash`: the stash is shared with other people's worktrees of the same repository).
  - SEEDED/X/demo.py : a small self-contained program (no pytest needed) that takes the path of a checkout as its first argument (it must set sys.path / PYTHONPATH to use THAT checkout's openapi_python_client, e.g. by running the generator in a subprocess with PYTHONPATH set, or sys.path.insert(0, argv[1]) before importing), builds the specific input(s), runs the generator (and, if needed, the generated code), and exits 0 when the property holds and 1 (printing what it saw) when it is violated. It must PASS (exit 0) on the unmodified checkout and FAIL (exit 1) with the change applied. Use a temporary directory under /tmp for outputs and clean it up.
  - SEEDED/X/NOTES.md : 5-10 lines: what the change does, why it breaks the property, and exactly what is needed for it to manifest (which input feature / option / sequence), plus the commands you ran and their results (existing tests with the change; demo without and with the change).
Leave the worktree itself CLEAN of the changes at the end (git checkout -- openapi_python_client), keeping only the SEEDED/ directory (untracked).

Verify everything yourself before finishing: (i) demo passes on the clean tree, (ii) with patch A applied the existing tests still pass and demo A fails, (iii) same for B. Report in your final message, for A and B: the one-line description, the file(s) touched, and the verification results. Keep the final message short.'''


DIVERSITY = {
    "default": "For diversity: make at least one of them a change in a Jinja template (openapi_python_client/templates/**) or a change whose effect depends on a configuration option (see README.md, section Configuration) or on the interplay of two document features (e.g. a feature used inside another feature, or the same component used in two roles); avoid the most obvious single-line site for this property.",
    "5": "For diversity: change A must live in one of the less obvious areas - openapi_python_client/schema/** (the pydantic models that parse the document), openapi_python_client/utils.py, config.py, cli.py or the project-assembly code in openapi_python_client/__init__.py - or in a shared helper template (templates/property_templates/helpers.jinja, property_macros.py.jinja, endpoint_macros.py.jinja, types.py.jinja, client.py.jinja). Change B must be one whose effect needs at least THREE conditions to hold at once (for example: a particular option AND a particular schema feature AND a particular position or order in the document), or that only shows on the second use of something (state carried over from an earlier schema, operation or command). Avoid the most obvious site for this property.",
    "6": "For diversity: earlier rounds already produced many changes in parser/openapi.py, __init__.py, enum_property.py, utils.py, schemas.py and model_property.py - stay away from those files unless the property cannot be broken elsewhere. Change A should live, if the property can be broken there, in one of the per-type pieces: openapi_python_client/templates/property_templates/*.jinja other than union/list (date, datetime, uuid, file, model, enum, const, float, int, boolean, any ...), templates/client.py.jinja, templates/types.py.jinja, templates/endpoint_init / package-level templates, or openapi_python_client/parser/properties/{protocol,property,date,datetime,float,int,string,uuid,file,none,boolean,any,const,list_property,union}.py. Change B should live, if possible, in openapi_python_client/schema/** other than schema.py (parameter.py, operation.py, path_item.py, media_type.py, response.py, reference.py, data_type.py, parameter_location.py ...), parser/bodies.py, parser/responses.py, parser/errors.py, parser/properties/merge_properties.py, config.py or cli.py, and its effect must need at least TWO conditions at once or state carried over from something processed earlier (an earlier schema, operation, response or command). If neither area can break this property, choose the least obvious site you can find and say so in NOTES.md.",
    "7": "For diversity: many earlier changes were written for this property already (in parser/openapi.py, __init__.py, enum_property.py, utils.py, schemas.py, model_property.py, merge_properties.py, bodies.py, responses.py, list_property.py, union.py, const/int/float/date property files, enum / const / date property templates, literal_enum template, config.py, cli.py, schema/parameter.py) - do something different from the obvious in those places. Change A must be one whose effect shows ONLY WHEN THE GENERATED CLIENT RUNS (the generated package still imports and looks plausible): put it in generated run-time code - templates/types.py.jinja, client.py.jinja, errors.py.jinja, endpoint_module.py.jinja / endpoint_macros.py.jinja, the to_multipart / additional-properties / lazy-import parts of model.py.jinja, or a property template (union, list, file, uuid, datetime, model, any, float, int, boolean, string) - and make it depend on a specific value or combination at run time (for example: only for the asyncio variants, only for a second call on the same client, only for empty / zero / false / very large values, only for a particular status code class, only when two features meet in one model or one operation). Change B must depend on an OPTION or command-line flag (see README.md, Configuration: class_overrides, field_prefix, use_path_prefixes_for_title_model_names, literal_enums, docstrings_on_attributes, generate_all_tags, content_type_overrides, post_hooks, project/package name overrides, --meta, --file-encoding, --custom-template-path, --overwrite, --fail-on-warning) or on the ORDER or NUMBER OF TIMES something is processed (the second use of a component, the second operation under a tag, the second generate into the same directory, a later schema seeing state left by an earlier one). If the property cannot be broken in such a place, pick the least obvious site you can find and say so in NOTES.md.",
    "8": "For diversity: well over a hundred changes were written for this project already, in nearly every parser file and template - avoid the first idea that comes to mind. Change A must involve an OpenAPI 3.1-specific or rarely used feature of the parser: type lists (type: [a, b]), `prefixItems`, `const`, the null type, `nullable` combined with composition keywords, `additionalProperties` given as true / false / schema, `required` lists naming undeclared properties, `readOnly`, `deprecated`, `example(s)`, parameter `style` / `explode`, `content`-style parameters, path-item level `servers` / `summary` / `description`, `$ref` siblings (description next to $ref), reusable `components/responses|requestBodies|parameters|headers`, `default` / `2XX` response keys, several `security` requirements, `tags` given as empty list. Change B must involve how the document or the configuration reaches the generator or how the result is written: `--url` vs `--path`, content types of the URL response, YAML vs JSON (anchors / merge keys, duplicate keys, non-string keys, tabs), BOMs and encodings, `--config` in YAML vs JSON, unknown configuration keys, `--meta` flavours and their files, `--output-path` given relative / with trailing slash / pointing into a nested missing directory, `--overwrite`, `--fail-on-warning`, post-hook failures, the exit status. If the property cannot be broken in such a place, pick the least obvious site you can find and say so in NOTES.md.",
}


def main():
    wave = sys.argv[1]
    props = {}
    for line in open("/verif/properties.jsonl"):
        p = json.loads(line)
        props[p["id"]] = f"{p['id']} — {p['title']}\n\nStatement: {p['statement']}\n\nQuantified over: {p['quantifier']['text']}\n"
    for pid in sys.argv[2:]:
        open(f"/tmp/prompt{wave}-{pid}.txt", "w").write(TMPL.format(wt=f"/tmp/wt{wave}-{pid}", prop=props[pid], diversity=DIVERSITY.get(wave, DIVERSITY["default"])))
        print(f"/tmp/prompt{wave}-{pid}.txt")


if __name__ == "__main__":
    main()
