"""Analysis aid: list (or with --apply remove) the entries of known_findings.json that no logged run observed.
A listed finding must be a demonstrated failing input; an entry that never fires only risks hiding a regression.
usage: VERIF_SEEN_LOG=/var/tmp/seen.log tools/sweep.sh ... ; tools/prune_findings.py /var/tmp/seen.log [--apply]"""
import json
import sys


def main():
    log = sys.argv[1]
    seen = {}
    runs = set()
    for line in open(log):
        r = json.loads(line)
        runs.add((r["property"], r["tier"], r["seed"]))
        for k, n in r["seen"].items():
            seen[(r["property"], k)] = seen.get((r["property"], k), 0) + n
    kf = json.load(open("/verif/known_findings.json"))
    props_run = {p for p, _, _ in runs}
    keep, drop = [], []
    for f in kf["findings"]:
        if f["property"] in props_run and (f["property"], f["key"]) not in seen:
            drop.append(f)
        else:
            keep.append(f)
    print(f"runs logged: {len(runs)}; findings: {len(kf['findings'])}; never observed: {len(drop)}")
    for f in drop:
        print("  UNSEEN", f["property"], f["key"])
    if "--apply" in sys.argv:
        kf["findings"] = keep
        json.dump(kf, open("/verif/known_findings.json", "w"), indent=1, ensure_ascii=False)
        print("removed")


if __name__ == "__main__":
    main()
