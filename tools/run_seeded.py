#!/usr/bin/env python3
"""Run checks against the seeded property-breaking changes in /verif/seeded/<id>/.

For each seeded change: copy /repo's working tree to a scratch directory outside /repo and /verif, apply patch.diff
there, run the quick (and optionally thorough) check of the property it breaks with VERIF_REPO pointing at the copy,
record exit status and the VIOLATION keys, delete the copy.  /repo itself is never modified.
usage: tools/run_seeded.py [--tier quick|thorough] [--also C01,C08] [id ...]
"""
import json, os, re, shutil, subprocess, sys, tempfile, time
VERIF = os.path.dirname(os.path.dirname(os.path.abspath(__file__)))


def main():
    args = sys.argv[1:]
    tier = "quick"
    also = []
    ids = []
    while args:
        a = args.pop(0)
        if a == "--tier":
            tier = args.pop(0)
        elif a == "--also":
            also = args.pop(0).split(",")
        else:
            ids.append(a)
    sd = os.path.join(VERIF, "seeded")
    ids = ids or sorted(d for d in os.listdir(sd) if os.path.exists(os.path.join(sd, d, "patch.diff")))
    results_path = os.path.join(sd, "RESULTS.json")
    results = json.load(open(results_path)) if os.path.exists(results_path) else {}
    for sid in ids:
        meta = json.load(open(os.path.join(sd, sid, "meta.json")))
        props = [meta["property"]] + [p for p in also if p != meta["property"]] + [p for p in meta.get("also_check", []) if p != meta["property"]]
        tmp = tempfile.mkdtemp(prefix=f"mut-{sid}-", dir="/var/tmp")
        try:
            copy = os.path.join(tmp, "repo")
            subprocess.run(["git", "-C", "/repo", "worktree", "prune"], capture_output=True)
            shutil.copytree("/repo", copy, ignore=shutil.ignore_patterns(".git", "__pycache__", ".pytest_cache", ".mypy_cache", ".ruff_cache"))
            r = subprocess.run(["git", "apply", "--unsafe-paths", "--directory", copy, os.path.join(sd, sid, "patch.diff")], capture_output=True, text=True, cwd=tmp)
            if r.returncode != 0:
                r = subprocess.run(["patch", "-p1", "-d", copy, "-i", os.path.join(sd, sid, "patch.diff")], capture_output=True, text=True)
            if r.returncode != 0:
                print(f"{sid}: patch does not apply: {r.stderr[:300]}")
                results[sid] = {"error": "patch does not apply"}
                continue
            for prop in props:
                env = dict(os.environ, VERIF_REPO=copy, VERIF_TIER=tier, VERIF_SCRATCH=tmp, VERIF_EVIDENCE_DIR=os.path.join(tmp, "evidence"))
                env.setdefault("VERIF_SEED", "0")
                t0 = time.time()
                p = subprocess.run([os.path.join(VERIF, "check"), prop, "--tier", tier], capture_output=True, text=True, env=env, cwd=VERIF, timeout=7200)
                keys = re.findall(r"^  key=(\S+)", p.stdout, re.M)
                results.setdefault(sid, {})[f"{prop}:{tier}"] = {"exit": p.returncode, "new_violation_keys": keys[:12], "wall_s": round(time.time() - t0, 1), "seed": env["VERIF_SEED"]}
                print(f"{sid}: {prop} {tier} -> exit {p.returncode} keys={keys[:4]} ({time.time() - t0:.0f}s)", flush=True)
        finally:
            shutil.rmtree(tmp, ignore_errors=True)
        json.dump(results, open(results_path, "w"), indent=1, sort_keys=True)


if __name__ == "__main__":
    main()
