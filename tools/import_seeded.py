#!/usr/bin/env python3
"""Confirm a sub-agent's seeded changes in its scratch worktree and import them into /verif/seeded/.

usage: tools/import_seeded.py Cxx   (worktree /tmp/wt-Cxx with SEEDED/A, SEEDED/B)
Confirms for each change: the demo passes on the clean worktree, the patch applies, the existing suite (tests +
functional tests) still passes with it, the demo fails with it.  Only confirmed changes are imported.
"""
import json, os, re, shutil, subprocess, sys
VERIF = os.path.dirname(os.path.dirname(os.path.abspath(__file__)))


def sh(cmd, cwd=None, env=None, timeout=1800):
    p = subprocess.run(cmd, cwd=cwd, env=env, capture_output=True, text=True, timeout=timeout)
    return p.returncode, (p.stdout + p.stderr)


def main():
    prop = sys.argv[1]
    wt = sys.argv[2] if len(sys.argv) > 2 else f"/tmp/wt-{prop}"
    suffix = sys.argv[3] if len(sys.argv) > 3 else ""
    env = dict(os.environ, PYTHONPATH=wt, PYTHONDONTWRITEBYTECODE="1")
    for X in sorted(os.listdir(os.path.join(wt, "SEEDED"))):
        d = os.path.join(wt, "SEEDED", X)
        if not os.path.exists(os.path.join(d, "patch.diff")):
            continue
        sid = f"{prop}-{X}{suffix}"
        sh(["git", "-C", wt, "checkout", "--", "openapi_python_client"])
        rc0, out0 = sh(["/venv/bin/python", os.path.join(d, "demo.py"), wt], cwd=d, env=env)
        rca, outa = sh(["git", "-C", wt, "apply", os.path.join(d, "patch.diff")])
        if rca != 0:
            print(f"{sid}: REJECTED patch does not apply: {outa[:200]}")
            continue
        rct, outt = sh(["/venv/bin/python", "-m", "pytest", "-q", "-p", "no:cacheprovider", "tests", "end_to_end_tests/functional_tests"], cwd=wt, env=env)
        m = re.search(r"(\d+) passed", outt)
        passed = int(m.group(1)) if m else 0
        failed = re.search(r"(\d+) failed", outt)
        rc1, out1 = sh(["/venv/bin/python", os.path.join(d, "demo.py"), wt], cwd=d, env=env)
        files = sh(["git", "-C", wt, "diff", "--stat"])[1]
        sh(["git", "-C", wt, "checkout", "--", "openapi_python_client"])
        ok = rc0 == 0 and rc1 != 0 and passed >= 397 and not failed
        print(f"{sid}: demo clean={rc0} demo patched={rc1} suite passed={passed} failed={failed.group(1) if failed else 0} -> {'CONFIRMED' if ok else 'REJECTED'}")
        if not ok:
            print("   clean demo output:", out0[-300:].replace("\n", " | "))
            print("   patched demo output:", out1[-300:].replace("\n", " | "))
            continue
        dst = os.path.join(VERIF, "seeded", sid)
        os.makedirs(dst, exist_ok=True)
        for f in ("patch.diff", "demo.py", "NOTES.md"):
            if os.path.exists(os.path.join(d, f)):
                shutil.copy(os.path.join(d, f), os.path.join(dst, f))
        notes = open(os.path.join(d, "NOTES.md")).read() if os.path.exists(os.path.join(d, "NOTES.md")) else ""
        meta = {"id": sid, "property": prop, "origin": "independent sub-agent given only the property text and a scratch worktree",
                "needs_to_manifest": notes.strip().split("\n\n")[0][:600], "files_touched": [l.split("|")[0].strip() for l in files.splitlines() if "|" in l],
                "confirmed": {"demo_on_clean_tree_exit": rc0, "demo_with_change_exit": rc1, "existing_suite_with_change": f"{passed} passed, 0 failed (tests + end_to_end_tests/functional_tests)",
                              "how": "tools/import_seeded.py in the agent's scratch worktree (PYTHONPATH=<worktree>)"},
                "demo_output_with_change": out1[-400:]}
        json.dump(meta, open(os.path.join(dst, "meta.json"), "w"), indent=1)


if __name__ == "__main__":
    main()
