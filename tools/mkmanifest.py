#!/usr/bin/env python3
"""Regenerates MANIFEST.json from the table below (kept in one place so the manifest is always schema-valid)."""
import json, os, sys
HERE = os.path.dirname(os.path.dirname(os.path.abspath(__file__)))
BASELINE = "cd /repo && /venv/bin/python -m pytest -ra -q -p no:cacheprovider --timeout=900 --continue-on-collection-errors"
CHECKS = json.load(open(os.path.join(HERE, "tools", "checks.json")))
ALL = [f"C{i:02d}" for i in range(1, 21)]
man = {
    "version": 1,
    "setup_cmd": "cd /verif && ./setup.sh",
    "hooks": {"guard": "OPENAPI_PYTHON_CLIENT_VERIF", "enable": "no source hooks: the guard only switches on harness-side instrumentation (audit hooks, sys.monitoring, wrapped module attributes) inside the worker processes the checks start; /repo is imported from its working tree through the editable install", "baseline_off_cmd": BASELINE, "source_commits": [], "add_only": True},
    "engines": [{"name": "vf", "path": "vf/", "serves_properties": sorted(CHECKS), "kind_free_text": "runtime monitoring: generator-driver workers with audit / sys.monitoring / structure monitors, sandbox interpreters with import / exec / HTTP-capture / type-conformance monitors, offline reference-model oracles over the recorded events"}],
    "checks": [],
    "not_applicable": [],
    "notes": "exit 0 = held on everything observed, 1 = VIOLATION, 2 = inconclusive (deciding counter zero / watchdogs). Known findings: known_findings.json (mechanism keys).",
}
for pid in ALL:
    c = CHECKS.get(pid)
    if not c:
        man["not_applicable"].append({"property_id": pid, "reason": "check not built yet in this phase (planned: DESIGN.md section 8); not a limitation of the technique"})
        continue
    man["checks"].append({
        "property_id": pid,
        "quick_cmd": f"./check {pid} --tier quick",
        "thorough_cmd": f"./check {pid} --tier thorough",
        "evidence_file": f"evidence/{pid}.json",
        "replay_cmd_template": "./replay {path}",
        "engine": "vf",
        "level_claimed": {"category": c.get("category", "exploration"), "text": c["text"], "design_ref": f"DESIGN.md section 8, {pid}"},
        "level_note": c["note"],
        "technique": c["technique"],
    })
json.dump(man, open(os.path.join(HERE, "MANIFEST.json"), "w"), indent=1)
print("wrote MANIFEST.json with", len(man["checks"]), "checks;", len(man["not_applicable"]), "not claimed")
