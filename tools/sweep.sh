#!/bin/bash
# tools/sweep.sh <tier> <seed...> : run every check (or those in $CHECKS) on the unchanged tree; print one line per (check, seed)
tier="$1"; shift
cd "$(dirname "$0")/.."
checks="${CHECKS:-$(for i in $(seq -w 1 20); do echo C$i; done)}"
for s in "$@"; do
  for c in $checks; do
    out=$(VERIF_SEED=$s VERIF_TIER=$tier ./check $c --tier $tier 2>&1)
    rc=$?
    echo "$c seed=$s tier=$tier exit=$rc $(echo "$out" | grep -c '^VIOLATION') violations; $(echo "$out" | tail -1 | cut -c1-160)"
    if [ $rc -ne 0 ]; then echo "$out" | grep -A1 '^VIOLATION\|^INCONCLUSIVE' | cut -c1-300 | head -12; fi
  done
done
