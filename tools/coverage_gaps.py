"""Analysis aid, not a check: union of the repository lines executed by the checks' sampled jobs (M-COV dumps written
with VERIF_COV_DUMP=<dir>) against the statement lines of openapi_python_client/**/*.py; prints never-executed lines
per file so that workloads can be widened where no check reaches.   usage: coverage_gaps.py <dumpdir> [file-substring]"""
import ast
import json
import os
import sys

REPO = os.environ.get("VERIF_REPO", "/repo")


def main():
    d = sys.argv[1]
    only = sys.argv[2] if len(sys.argv) > 2 else ""
    hit = {}
    for f in os.listdir(d):
        for fn, ln in json.load(open(os.path.join(d, f))):
            hit.setdefault(fn, set()).add(ln)
    root = os.path.join(REPO, "openapi_python_client")
    tot_s = tot_h = 0
    for dp, _, fns in os.walk(root):
        for fn in sorted(fns):
            if not fn.endswith(".py"):
                continue
            full = os.path.join(dp, fn)
            rel = os.path.relpath(full, root)
            if only and only not in rel:
                continue
            src = open(full).read()
            tree = ast.parse(src)
            stm = set()
            for n in ast.walk(tree):
                if isinstance(n, ast.stmt) and not isinstance(n, (ast.FunctionDef, ast.ClassDef, ast.AsyncFunctionDef, ast.Import, ast.ImportFrom)):
                    if isinstance(n, ast.Expr) and isinstance(n.value, ast.Constant) and isinstance(n.value.value, str):
                        continue
                    stm.add(n.lineno)
            h = hit.get(rel, set())
            miss = sorted(stm - h)
            tot_s += len(stm)
            tot_h += len(stm & h)
            if stm:
                print(f"{rel}: {len(stm & h)}/{len(stm)} statement lines executed; never: {miss[:60]}")
    print(f"TOTAL {tot_h}/{tot_s}")


if __name__ == "__main__":
    main()
