"""Subprocess worker pool speaking JSON lines.  No multiprocessing.Pool (a dead child hangs it).

Every job has a wall-clock watchdog; a watchdog firing yields {"_error": "timeout"} which callers treat as
*inconclusive*, never as a violation.  Workers are restarted after death/timeout and recycled every
`recycle` jobs so that state accumulated in a long-lived worker cannot leak between cases.
"""
from __future__ import annotations

import json
import os
import queue
import select
import subprocess
import threading
import time

from .common import NCPU, PY, VERIF, child_env


class _Worker:
    def __init__(self, module: str, env: dict, cwd: str):
        self.module, self.env, self.cwd = module, env, cwd
        self.proc = None
        self.buf = b""
        self.jobs = 0

    def start(self):
        self.proc = subprocess.Popen(
            [PY, "-u", "-m", self.module],
            stdin=subprocess.PIPE,
            stdout=subprocess.PIPE,
            stderr=subprocess.PIPE,
            env=self.env,
            cwd=self.cwd,
        )
        os.set_blocking(self.proc.stderr.fileno(), False)
        self.buf = b""
        self.jobs = 0

    def stop(self):
        if self.proc is not None:
            try:
                self.proc.kill()
            except Exception:
                pass
            try:
                self.proc.wait(timeout=5)
            except Exception:
                pass
            for f in (self.proc.stdin, self.proc.stdout, self.proc.stderr):
                try:
                    f.close()
                except Exception:
                    pass
            self.proc = None

    def _stderr_tail(self) -> str:
        try:
            data = self.proc.stderr.read() or b""
        except Exception:
            data = b""
        return data.decode("utf-8", "replace")[-2000:]

    def _drain_stderr(self):
        try:
            while self.proc.stderr.read(65536):
                pass
        except Exception:
            pass

    def call(self, job: dict, timeout: float) -> dict:
        if self.proc is None or self.proc.poll() is not None:
            self.stop()
            self.start()
        line = (json.dumps(job) + "\n").encode()
        try:
            self.proc.stdin.write(line)
            self.proc.stdin.flush()
        except Exception as ex:
            tail = self._stderr_tail()
            self.stop()
            return {"_error": "died", "detail": f"write failed: {ex}", "stderr": tail}
        deadline = time.time() + timeout
        fd = self.proc.stdout.fileno()
        while b"\n" not in self.buf:
            left = deadline - time.time()
            if left <= 0:
                tail = self._stderr_tail()
                self.stop()
                return {"_error": "timeout", "stderr": tail}
            r, _, _ = select.select([fd], [], [], min(left, 1.0))
            self._drain_stderr_keep()
            if not r:
                continue
            chunk = os.read(fd, 1 << 20)
            if not chunk:
                tail = self._errtail + self._stderr_tail()
                self.stop()
                return {"_error": "died", "stderr": tail[-2000:]}
            self.buf += chunk
        out, _, self.buf = self.buf.partition(b"\n")
        self.jobs += 1
        try:
            return json.loads(out)
        except Exception as ex:
            return {"_error": "protocol", "detail": str(ex), "raw": out[:500].decode("utf-8", "replace")}

    _errtail = ""

    def _drain_stderr_keep(self):
        try:
            data = self.proc.stderr.read(65536)
            if data:
                self._errtail = (self._errtail + data.decode("utf-8", "replace"))[-2000:]
        except Exception:
            pass


class Pool:
    def __init__(self, module: str, n: int | None = None, recycle: int = 400, env: dict | None = None, cwd: str | None = None):
        self.module = module
        self.n = n or NCPU
        self.recycle = recycle
        self.base_env = env
        self.cwd = cwd or str(VERIF)
        self.workers: dict[str, list[_Worker]] = {}
        self.stats = {"jobs": 0, "timeouts": 0, "deaths": 0}

    def _lane_workers(self, lane: str, env: dict | None) -> list[_Worker]:
        if lane not in self.workers:
            e = env or self.base_env or child_env()
            self.workers[lane] = [_Worker(self.module, e, self.cwd) for _ in range(self.n)]
        return self.workers[lane]

    def map(self, jobs: list[dict], timeout: float = 120.0, lane: str = "default", env: dict | None = None, progress: str | None = None) -> list[dict]:
        """Run all jobs on this lane's workers; results in job order."""
        workers = self._lane_workers(lane, env)
        q: queue.Queue = queue.Queue()
        for i, j in enumerate(jobs):
            q.put((i, j))
        results: list = [None] * len(jobs)
        lock = threading.Lock()
        done = [0]
        t0 = time.time()

        def run(w: _Worker):
            while True:
                try:
                    i, j = q.get_nowait()
                except queue.Empty:
                    return
                if w.jobs >= self.recycle:
                    w.stop()
                r = w.call(j, timeout)
                with lock:
                    self.stats["jobs"] += 1
                    if r.get("_error") == "timeout":
                        self.stats["timeouts"] += 1
                    elif r.get("_error") == "died":
                        self.stats["deaths"] += 1
                    done[0] += 1
                    if progress and done[0] % 200 == 0:
                        print(f"  .. {progress}: {done[0]}/{len(jobs)} ({time.time() - t0:.0f}s)", flush=True)
                results[i] = r

        threads = [threading.Thread(target=run, args=(w,), daemon=True) for w in workers[: max(1, min(self.n, len(jobs)))]]
        for t in threads:
            t.start()
        for t in threads:
            t.join()
        return results

    def close_lane(self, lane: str):
        for w in self.workers.pop(lane, []):
            w.stop()

    def close(self):
        for ws in self.workers.values():
            for w in ws:
                w.stop()
        self.workers.clear()
