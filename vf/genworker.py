"""Generator-driver worker: runs the *real* generator from VERIF_REPO's working tree in-process under monitors.

Monitors (see DESIGN.md 3.1): M-DIAG (diagnostics / escaped exceptions / CLI exit code), M-STEP (CPU-time bound via
ITIMER_VIRTUAL + PY_START counter), M-FS (audit hook on file-system mutations), M-STRUCT (manifest of what the parser
handed to the templates, captured at the quiescent point between parsing and rendering), M-COV (sys.monitoring line
coverage of repository code incl. templates).  After generation the worker can drive a sandbox interpreter
(vf/sandbox.py) over the produced package.
"""
from __future__ import annotations

import base64
import contextlib
import hashlib
import http.server
import io
import json
import os
import shutil
import signal
import subprocess
import sys
import threading
import time
import traceback
from pathlib import Path

_proto = os.fdopen(os.dup(1), "w", buffering=1, encoding="utf-8")
os.dup2(os.open(os.devnull, os.O_WRONLY), 1)

REPO = os.environ.get("VERIF_REPO", "/repo")
PY = os.environ.get("VERIF_PYTHON", "/venv/bin/python")
HERE = Path(__file__).resolve().parent

# ------------------------------------------------------------------------------------------------ M-FS
FS = {"on": False, "events": []}
_WRITE_FLAGS = os.O_WRONLY | os.O_RDWR | os.O_CREAT | os.O_APPEND | os.O_TRUNC
_FS_EVENTS = {"os.mkdir", "os.rename", "os.replace", "os.remove", "os.rmdir", "shutil.rmtree", "os.chmod", "os.symlink",
              "os.truncate", "os.link", "shutil.copyfile", "shutil.move", "os.chown", "os.utime", "shutil.copytree", "os.unlink"}


def _resolve(p, dir_fd=None):
    try:
        if isinstance(p, int):
            return os.readlink(f"/proc/self/fd/{p}")
        p = os.fsdecode(p)
        if not os.path.isabs(p):
            if isinstance(dir_fd, int):
                p = os.path.join(os.readlink(f"/proc/self/fd/{dir_fd}"), p)
            else:
                p = os.path.join(os.getcwd(), p)
        return os.path.normpath(p)
    except Exception:
        return repr(p)


def _audit(ev, args):
    if not FS["on"]:
        return
    try:
        if ev == "open":
            path, mode, flags = args[0], args[1], args[2]
            if isinstance(path, int):
                return
            if (isinstance(flags, int) and flags & _WRITE_FLAGS) or (isinstance(mode, str) and any(c in mode for c in "wax+")):
                FS["events"].append(["open-w", _resolve(path)])
        elif ev in _FS_EVENTS:
            dir_fd = None
            for x in args[1:]:
                if isinstance(x, int) and ev in ("os.remove", "os.rmdir", "os.mkdir", "os.unlink") and x > 2:
                    dir_fd = x
            if ev in ("os.rename", "os.replace", "os.symlink", "os.link", "shutil.copyfile", "shutil.move", "shutil.copytree"):
                FS["events"].append([ev, _resolve(args[0]), _resolve(args[1])])
            else:
                FS["events"].append([ev, _resolve(args[0], dir_fd)])
        elif ev == "subprocess.Popen":
            cwd = args[2] if len(args) > 2 else None
            FS["events"].append(["popen", str(args[1])[:200] if len(args) > 1 else "", _resolve(cwd) if cwd else None])
    except Exception as ex:  # never let the monitor break the program
        FS["events"].append(["monitor-error", repr(ex)])


sys.addaudithook(_audit)

# ------------------------------------------------------------------------------------------------ imports of the system under test
if REPO != "/repo" and REPO not in sys.path:
    sys.path.insert(0, REPO)
import openapi_python_client as opc  # noqa: E402
from openapi_python_client import cli as opc_cli  # noqa: E402
from openapi_python_client.config import Config, ConfigFile, MetaType  # noqa: E402
from openapi_python_client.parser import openapi as opc_openapi  # noqa: E402
from openapi_python_client.parser.errors import ErrorLevel  # noqa: E402

assert os.path.realpath(opc.__file__).startswith(os.path.realpath(REPO)), (opc.__file__, REPO)
PKG_DIR = os.path.dirname(os.path.realpath(opc.__file__))

# ------------------------------------------------------------------------------------------------ M-CONTRACT
# Runtime contracts on the repository's naming / escaping primitives, installed from the harness (no repository edit).
# They *localise* (first offending call with its arguments); verdicts are always taken where the bad state becomes
# observable (tree / sandbox).  Conditions record and return True, so a broken contract never aborts a generation.
CONTRACT = {"engine": None, "evaluations": {}, "failures": []}


def _install_contracts():
    import keyword as _kw
    from openapi_python_client import utils as _u
    deps = str(HERE.parent / ".deps")
    if os.path.isdir(deps) and deps not in sys.path:
        sys.path.append(deps)  # appended: never shadows the repository's own dependencies
    try:
        import icontract
    except Exception:
        icontract = None

    def note(name, ok, **ctx):
        CONTRACT["evaluations"][name] = CONTRACT["evaluations"].get(name, 0) + 1
        if not ok and len(CONTRACT["failures"]) < 20:
            CONTRACT["failures"].append({"contract": name, **{k: repr(v)[:80] for k, v in ctx.items()}})
        return True

    def identifier_is_valid(result, value):
        return note("PythonIdentifier:valid_non_keyword_identifier", str(result).isidentifier() and not _kw.iskeyword(str(result)), value=value, result=result)

    def class_name_is_valid(result, value):
        return note("ClassName:valid_non_keyword_identifier", str(result).isidentifier() and not _kw.iskeyword(str(result)), value=value, result=result)

    def escapes_reproduce_value(result, value):
        try:
            import ast as _ast
            okk = _ast.literal_eval('"' + result + '"') == value
        except Exception:
            okk = False
        return note("remove_string_escapes:literal_reproduces_value", okk, value=value, result=result)

    def path_parameters_follow_path(result):
        if hasattr(result, "path_parameters"):
            names_ = re.findall(r"{([^}]*)}", result.path)
            return note("Endpoint.sort_parameters:order_follows_path", names_ == [str(p.python_name) for p in result.path_parameters], path=result.path)
        return note("Endpoint.sort_parameters:order_follows_path", True)

    if icontract is not None:
        class ContractBroken(Exception):
            pass
        _u.PythonIdentifier.__new__ = icontract.ensure(identifier_is_valid, error=ContractBroken)(_u.PythonIdentifier.__new__)
        _u.ClassName.__new__ = icontract.ensure(class_name_is_valid, error=ContractBroken)(_u.ClassName.__new__)
        _u.remove_string_escapes = icontract.ensure(escapes_reproduce_value, error=ContractBroken)(_u.remove_string_escapes)
        opc_openapi.Endpoint.sort_parameters = staticmethod(icontract.ensure(path_parameters_follow_path, error=ContractBroken)(opc_openapi.Endpoint.sort_parameters))
        CONTRACT["engine"] = "icontract " + getattr(icontract, "__version__", "?")
    else:
        def wrap(fn, cond, with_value=True):
            def inner(*a, **k):
                r = fn(*a, **k)
                cond(r, (a[1] if len(a) > 1 else k.get("value"))) if with_value else cond(r)
                return r
            return inner
        _u.PythonIdentifier.__new__ = wrap(_u.PythonIdentifier.__new__, identifier_is_valid)
        _u.ClassName.__new__ = wrap(_u.ClassName.__new__, class_name_is_valid)
        CONTRACT["engine"] = "plain wrappers (icontract not installed)"


# ------------------------------------------------------------------------------------------------ M-STEP


class CpuLimit(BaseException):
    pass


class _SubprocessDone(Exception):
    pass


def _on_vtalrm(signum, frame):
    raise CpuLimit()


signal.signal(signal.SIGVTALRM, _on_vtalrm)

# ------------------------------------------------------------------------------------------------ M-COV (optional)
COV = {"on": False, "lines": set()}
_TOOL = 3


def _cov_setup():
    mon = sys.monitoring
    try:
        mon.use_tool_id(_TOOL, "vf-cov")
    except ValueError:
        pass

    def on_start(code, off):
        fn = code.co_filename
        if fn.startswith(PKG_DIR):
            try:
                mon.set_local_events(_TOOL, code, mon.events.LINE)
            except Exception:
                pass
        return mon.DISABLE

    def on_line(code, line):
        COV["lines"].add((code.co_filename[len(PKG_DIR) + 1:], line))
        return mon.DISABLE

    mon.register_callback(_TOOL, mon.events.PY_START, on_start)
    mon.register_callback(_TOOL, mon.events.LINE, on_line)
    mon.set_events(_TOOL, mon.events.PY_START)
    COV["on"] = True


# ------------------------------------------------------------------------------------------------ M-STRUCT
import re  # noqa: E402

try:
    if os.environ.get("OPENAPI_PYTHON_CLIENT_VERIF") == "1" and os.environ.get("VERIF_CONTRACTS", "1") == "1":
        _install_contracts()
except Exception as _ex:  # a contract library problem must never break the deciding monitors
    CONTRACT["engine"] = f"not installed: {type(_ex).__name__}: {_ex}"

CAPT = {"schemas": None, "endpoints": None}
_orig_from_data = opc_openapi.EndpointCollection.from_data


def _capturing_from_data(**kw):
    r = _orig_from_data(**kw)
    CAPT["endpoints"], CAPT["schemas"] = r[0], r[1]
    return r


opc_openapi.EndpointCollection.from_data = staticmethod(_capturing_from_data)


def prop_info(p, depth=0):
    kind = type(p).__name__
    d = {"kind": kind, "name": getattr(p, "name", None), "python_name": str(getattr(p, "python_name", "")), "required": getattr(p, "required", None)}
    try:
        d["type"] = p.get_type_string()
    except Exception as ex:
        d["type"] = f"<{type(ex).__name__}>"
    dv = getattr(p, "default", None)
    d["default"] = None if dv is None else {"code": dv.python_code, "raw": _jsonable(dv.raw_value)}
    if depth > 6:
        return d
    if kind in ("EnumProperty", "LiteralEnumProperty"):
        d["cls"] = str(p.class_info.name)
        d["module"] = str(p.class_info.module_name)
        d["value_type"] = p.value_type.__name__
        d["values"] = _jsonable(dict(p.values) if isinstance(p.values, dict) else sorted(p.values, key=repr))
    elif kind == "ModelProperty":
        d["cls"] = str(p.class_info.name)
        d["module"] = str(p.class_info.module_name)
    elif kind == "ListProperty":
        d["inner"] = prop_info(p.inner_property, depth + 1)
    elif kind == "UnionProperty":
        d["inners"] = [prop_info(i, depth + 1) for i in p.inner_properties]
    elif kind == "ConstProperty":
        d["const"] = {"code": p.value.python_code, "raw": _jsonable(p.value.raw_value)}
    return d


def _jsonable(x):
    try:
        json.dumps(x)
        return x
    except Exception:
        return repr(x)


def build_manifest():
    s, eps = CAPT["schemas"], CAPT["endpoints"]
    if s is None:
        return None
    man = {"models": {}, "enums": {}, "refs": {}, "endpoints": []}
    for cname, p in s.classes_by_name.items():
        kind = type(p).__name__
        if kind == "ModelProperty":
            man["models"][str(cname)] = {
                "cls": str(p.class_info.name), "module": str(p.class_info.module_name),
                "processed": p.required_properties is not None,
                "props": [prop_info(x) for x in (p.required_properties or []) + (p.optional_properties or [])],
                "additional": None if not p.additional_properties else prop_info(p.additional_properties),
                "multipart": bool(getattr(p, "is_multipart_body", False)),
                "lazy_imports": len(p.lazy_imports or ()),
            }
        elif kind in ("EnumProperty", "LiteralEnumProperty"):
            man["enums"][str(cname)] = prop_info(p)
    for ref, p in s.classes_by_reference.items():
        pi = prop_info(p)
        inner = set()

        def _cls(x):
            if x.get("cls"):
                inner.add(x["cls"])
            for sub in ([x["inner"]] if "inner" in x else []) + (x.get("inners") or []):
                _cls(sub)
        _cls(pi)
        man["refs"][str(ref)] = {"kind": type(p).__name__, "cls": str(p.class_info.name) if hasattr(p, "class_info") else None, "classes": sorted(inner)}
    for tag, coll in (eps or {}).items():
        for e in coll.endpoints:
            man["endpoints"].append({
                "tag": str(tag), "name": e.name, "module": str(opc.utils.PythonIdentifier(e.name, "field_")), "method": e.method, "path": e.path,
                "security": bool(e.requires_security),
                "params": {loc: [prop_info(x) for x in getattr(e, loc + "_parameters")] for loc in ("path", "query", "header", "cookie")},
                "bodies": [{"content_type": b.content_type, "body_type": str(b.body_type.value), "prop": prop_info(b.prop)} for b in e.bodies],
                "responses": [{"status": int(r.status_code), "source": r.source["attribute"], "prop": prop_info(r.prop)} for r in e.responses],
                "response_type": e.response_type(),
            })
    return man


# ------------------------------------------------------------------------------------------------ loopback document server
class _Handler(http.server.BaseHTTPRequestHandler):
    store: dict = {}

    def do_GET(self):  # noqa: N802
        item = self.store.get(self.path)
        if item is None:
            self.send_response(404)
            self.end_headers()
            return
        body, ctype, delay = item
        if delay:
            time.sleep(delay)
        self.send_response(200)
        if ctype is not None:
            self.send_header("Content-Type", ctype)
        self.send_header("Content-Length", str(len(body)))
        self.end_headers()
        try:
            self.wfile.write(body)
        except Exception:
            pass

    def log_message(self, *a):
        pass


_server = None


def serve(body: bytes, ctype, delay=0.0) -> str:
    global _server
    if _server is None:
        _server = http.server.ThreadingHTTPServer(("127.0.0.1", 0), _Handler)
        threading.Thread(target=_server.serve_forever, daemon=True).start()
    key = "/doc-" + hashlib.sha1(body + repr(ctype).encode()).hexdigest()[:16]
    _Handler.store[key] = (body, ctype, delay)
    return f"http://127.0.0.1:{_server.server_address[1]}{key}"


# ------------------------------------------------------------------------------------------------ sandbox child
class Sandbox:
    def __init__(self):
        self.proc = None
        self.n = 0

    def start(self):
        env = {k: v for k, v in os.environ.items() if k not in ("PYTHONPATH",)}
        env["PYTHONHASHSEED"] = "0"
        self.proc = subprocess.Popen([PY, "-P", "-B", "-u", str(HERE / "sandbox.py")], stdin=subprocess.PIPE, stdout=subprocess.PIPE,
                                     stderr=subprocess.DEVNULL, env=env, cwd="/")
        self.n = 0

    def stop(self):
        if self.proc:
            try:
                self.proc.kill()
                self.proc.wait(timeout=5)
            except Exception:
                pass
            self.proc = None

    def call(self, cmd: dict, timeout: float = 60.0, fresh: bool = False) -> dict:
        import select
        if fresh or self.proc is None or self.proc.poll() is not None or self.n >= 60:
            self.stop()
            self.start()
        self.n += 1
        try:
            self.proc.stdin.write((json.dumps(cmd) + "\n").encode())
            self.proc.stdin.flush()
        except Exception as ex:
            self.stop()
            return {"_error": "sandbox-died", "detail": str(ex)}
        fd = self.proc.stdout.fileno()
        buf = b""
        deadline = time.time() + timeout
        while not buf.endswith(b"\n"):
            left = deadline - time.time()
            if left <= 0:
                self.stop()
                return {"_error": "sandbox-timeout"}
            r, _, _ = select.select([fd], [], [], min(left, 1.0))
            if r:
                chunk = os.read(fd, 1 << 20)
                if not chunk:
                    rc = self.proc.poll()
                    self.stop()
                    return {"_error": "sandbox-died", "detail": f"exit {rc}"}
                buf += chunk
        try:
            return json.loads(buf)
        except Exception as ex:
            return {"_error": "sandbox-protocol", "detail": str(ex)}


SANDBOX = Sandbox()

# ------------------------------------------------------------------------------------------------ tree observation


def read_tree(root: Path, mode: str):
    out = {}
    if not root.exists():
        return out
    for p in sorted(root.rglob("*")):
        if p.is_file() and "__pycache__" not in p.parts and ".ruff_cache" not in p.parts and ".mypy_cache" not in p.parts:
            rel = str(p.relative_to(root))
            data = p.read_bytes()
            if mode == "text":
                try:
                    out[rel] = data.decode("utf-8")
                except UnicodeDecodeError:
                    out[rel] = {"$b64": base64.b64encode(data).decode()}
            else:
                out[rel] = hashlib.sha1(data).hexdigest()
    return out


def innermost_repo_frame(tb):
    site = None
    for fr in traceback.extract_tb(tb):
        if fr.filename.startswith(PKG_DIR):
            mod = fr.filename[len(PKG_DIR) + 1:].replace(".py", "").replace("/", ".")
            site = f"{mod}.{fr.name}"
    return site


def diag_list(errors):
    out = []
    for e in errors:
        out.append({"level": e.level.name, "header": e.header, "detail": e.detail, "cls": type(e).__name__,
                    "data": (repr(getattr(e, "data", None))[:300] if getattr(e, "data", None) is not None else None)})
    return out


WORK = Path(os.environ.get("VERIF_WORKDIR") or ".")


def handle(job: dict) -> dict:
    res: dict = {"id": job.get("id")}
    work = Path(job["work"])
    work.mkdir(parents=True, exist_ok=True)
    name = job.get("name", "pkg")
    # ---- document
    suffix = job.get("suffix", ".json")
    if "raw_b64" in job:
        body = base64.b64decode(job["raw_b64"])
    elif job.get("fmt") == "yaml":
        from ruamel.yaml import YAML
        buf = io.BytesIO()
        y = YAML(typ="safe")
        y.default_flow_style = False
        y.sort_base_mapping_type_on_output = False  # keep the document's key order
        y.dump(job["doc"], buf)
        body = buf.getvalue()
        suffix = job.get("suffix", ".yaml")
    else:
        body = json.dumps(job["doc"], ensure_ascii=job.get("ensure_ascii", True)).encode("utf-8")
    if job.get("source") == "url":
        source = serve(body, job.get("url_ctype", "application/json"))
    else:
        docp = work / f"doc-{name}{suffix}"
        docp.write_bytes(body)
        source = docp
    # ---- config
    cfgd = dict(job.get("cfg") or {})
    if not job.get("hooks") and "post_hooks" not in cfgd:
        cfgd["post_hooks"] = []
    meta = MetaType(job.get("meta", "none"))
    outdir = Path(job["outdir"]) if job.get("outdir") else (work / name)
    use_output_path = not job.get("no_output_path")
    res["outdir"] = str(outdir)
    cwd0 = os.getcwd()
    if job.get("cwd"):
        os.makedirs(job["cwd"], exist_ok=True)
        os.chdir(job["cwd"])
    CAPT["schemas"] = CAPT["endpoints"] = None
    if job.get("cov"):
        if not COV["on"]:
            _cov_setup()
        else:
            sys.monitoring.restart_events()  # lines disabled by an earlier job of this worker report again
    COV["lines"] = set()
    FS["events"] = []
    cpu_limit = float(job.get("cpu_limit", 30.0))
    errors = None
    t0 = time.process_time()
    signal.setitimer(signal.ITIMER_VIRTUAL, cpu_limit)
    FS["on"] = True
    try:
        if job.get("via") in ("cli", "subprocess"):
            from typer.testing import CliRunner
            args = ["generate", "--meta", meta.value]
            args += ["--url", source] if isinstance(source, str) else ["--path", str(source)]
            if use_output_path:
                args += ["--output-path", str(outdir)]
            if job.get("overwrite"):
                args += ["--overwrite"]
            if job.get("fail_on_warning"):
                args += ["--fail-on-warning"]
            if job.get("file_encoding"):
                args += ["--file-encoding", job["file_encoding"]]
            if job.get("custom_template_path"):
                args += ["--custom-template-path", job["custom_template_path"]]
            cfgp = work / f"cfg-{name}.json"
            FS["on"] = False
            if job.get("cfg_fmt") == "yaml":
                cfgp = work / f"cfg-{name}.yaml"
                from ruamel.yaml import YAML as _Y
                with open(cfgp, "wb") as fh_:
                    _Y(typ="safe").dump(cfgd, fh_)
            elif job.get("cfg_raw"):
                cfgp.write_bytes(json.dumps(cfgd, ensure_ascii=False).encode("utf-8"))  # non-ASCII text typed literally, UTF-8 as the README's examples are
            else:
                cfgp.write_text(json.dumps(cfgd))
            FS["on"] = True
            args += ["--config", str(cfgp)]
            if job.get("via") == "subprocess":
                # the real process boundary: exit status, stderr, cwd, hash seed of a fresh interpreter
                env = {k: v for k, v in os.environ.items() if k != "PYTHONHASHSEED"}
                env["PYTHONPATH"] = REPO
                if job.get("hashseed") is not None:
                    env["PYTHONHASHSEED"] = str(job["hashseed"])
                FS["on"] = False
                p_ = subprocess.run([PY, "-m", "openapi_python_client"] + args, capture_output=True, text=True, env=env, cwd=job.get("cwd") or str(work), timeout=float(job.get("subprocess_timeout", 120)))
                res["cli_exit"] = p_.returncode
                res["cli_stderr"] = p_.stderr if len(p_.stderr) < 4000 else p_.stderr[:1500] + "\n...\n" + p_.stderr[-2000:]
                res["cli_stdout"] = p_.stdout[:500] + p_.stdout[-500:]
                res["traceback"] = "Traceback (most recent call last)" in p_.stderr
                # what a caller of the real process can tell: exit status and whether anything was reported
                res["accepted"] = p_.returncode == 0 and not res["traceback"]
                out_ = (p_.stdout or "") + (p_.stderr or "")
                res["diags"] = [{"level": "ERROR" if "Error(s) encountered" in out_ else "WARNING", "header": "(process output)", "detail": out_[-600:], "data": None}] if ("Warning(s) encountered" in out_ or "Error(s) encountered" in out_) else []
                raise _SubprocessDone()
            r = CliRunner().invoke(opc_cli.app, args, catch_exceptions=True)
            res["cli_exit"] = r.exit_code
            try:
                err = r.stderr
            except Exception:
                err = ""
            res["cli_stderr"] = err if len(err) < 4000 else err[:1500] + "\n...\n" + err[-2000:]
            res["cli_stdout"] = r.stdout[:500] + r.stdout[-500:]
            if r.exception is not None and not isinstance(r.exception, SystemExit):
                ex = r.exception
                if isinstance(ex, CpuLimit):
                    raise ex
                res["exc"] = {"type": type(ex).__name__, "msg": str(ex)[:300], "site": innermost_repo_frame(ex.__traceback__)}
        else:
            cfg = Config.from_sources(ConfigFile(**cfgd), meta, source, job.get("file_encoding", "utf-8"), bool(job.get("overwrite")), outdir if use_output_path else None)
            with contextlib.redirect_stdout(io.StringIO()):
                errors = opc.generate(config=cfg, custom_template_path=Path(job["custom_template_path"]) if job.get("custom_template_path") else None)
    except _SubprocessDone:
        pass
    except subprocess.TimeoutExpired:
        res["nonterminating"] = {"cpu_limit": None, "stack": "real subprocess exceeded its wall-clock limit"}
    except CpuLimit:
        res["nonterminating"] = {"cpu_limit": cpu_limit, "stack": traceback.format_exc()[-1500:]}
    except BaseException as ex:
        res["exc"] = {"type": type(ex).__name__, "msg": str(ex)[:300], "site": innermost_repo_frame(ex.__traceback__), "tb": traceback.format_exc()[-1500:]}
    finally:
        signal.setitimer(signal.ITIMER_VIRTUAL, 0)
        FS["on"] = False
        res["cpu_s"] = round(time.process_time() - t0, 4)
        os.chdir(cwd0)
    if errors is not None:
        res["diags"] = diag_list(errors)
        res["accepted"] = not any(e.level == ErrorLevel.ERROR for e in errors)
    want = set(job.get("want") or [])
    if "cov" in want:
        res["contracts"] = {"engine": CONTRACT["engine"], "evaluations": dict(CONTRACT["evaluations"]), "failures": list(CONTRACT["failures"])}
        CONTRACT["evaluations"], CONTRACT["failures"] = {}, []
    res["out_exists"] = outdir.exists()
    if "fs" in want:
        res["fs_events"] = FS["events"][:2000]
    if "cov" in want:
        res["cov"] = sorted(COV["lines"])
    if "manifest" in want:
        try:
            res["manifest"] = build_manifest()
        except Exception as ex:
            res["manifest_error"] = f"{type(ex).__name__}: {ex}"
    pkgdir = outdir if meta == MetaType.NONE else None
    if meta != MetaType.NONE and outdir.exists():
        subs = [p for p in outdir.iterdir() if p.is_dir() and (p / "__init__.py").exists()]
        pkgdir = subs[0] if len(subs) == 1 else None
    res["pkgdir"] = str(pkgdir) if pkgdir else None
    if "tree" in want:
        res["tree"] = read_tree(outdir, "text")
    elif "treehash" in want:
        res["tree"] = read_tree(outdir, "hash")
    # ---- sandbox
    acts = list(job.get("sandbox") or [])
    if job.get("plan") and pkgdir is not None and pkgdir.exists():
        try:
            from vf import plans
            man = res.get("manifest") or build_manifest()
            if man is None:
                res["plan_error"] = "no manifest"
            else:
                acts = acts + plans.PLANS[job["plan"]["fn"]](job["doc"], man, job["plan"].get("args") or {})
        except Exception as ex:
            res["plan_error"] = f"{type(ex).__name__}: {ex}\n{traceback.format_exc()[-1200:]}"
        res["actions"] = acts
    if acts and pkgdir is not None and pkgdir.exists():
        res["sandbox"] = SANDBOX.call({"root": str(pkgdir.parent), "pkg": pkgdir.name, "actions": acts, "gencov": bool(job.get("gencov"))}, timeout=float(job.get("sandbox_timeout", 90)), fresh=bool(job.get("fresh_sandbox")))
    if not job.get("keep"):
        if not job.get("outdir"):
            shutil.rmtree(outdir, ignore_errors=True)
        for f in work.glob(f"*-{name}.*"):
            try:
                f.unlink()
            except OSError:
                pass
    return res


def handle_history(job: dict) -> dict:
    """A history of generate commands against one sandbox parent directory (C19).  Returns per step the diagnostics,
    the M-FS event stream and a content-hash snapshot of the whole parent directory."""
    parent = Path(job["work"]) / f"hist{job['id']}"
    shutil.rmtree(parent, ignore_errors=True)
    (parent / "sibling").mkdir(parents=True)
    (parent / "sentinel.txt").write_text("sentinel-above")
    (parent / "sibling" / "keep.txt").write_text("sentinel-beside")
    (parent / "cwd").mkdir()
    out = {"id": job.get("id"), "parent": str(parent), "steps": []}
    out["initial"] = read_tree(parent, "hash")
    for si, step in enumerate(job["steps"]):
        for rel, text in (step.get("user_files") or {}).items():
            fp = parent / rel
            fp.parent.mkdir(parents=True, exist_ok=True)
            fp.write_text(text)
        for rel in step.get("user_dirs") or []:
            (parent / rel).mkdir(parents=True, exist_ok=True)
        outdir_existed = (parent / step["outdir_rel"]).exists() if step.get("outdir_rel") else None
        before = read_tree(parent, "hash")
        sj = dict(step)
        sj.update({"id": f"{job['id']}.{si}", "work": str(parent / "_work"), "name": f"s{si}", "keep": True, "want": ["fs"], "cwd": str(parent / "cwd")})
        if step.get("outdir_rel"):
            sj["outdir"] = str(parent / step["outdir_rel"])
            (parent / step["outdir_rel"]).parent.mkdir(parents=True, exist_ok=True)
        else:
            sj["no_output_path"] = True
            sj["outdir"] = str(parent / "cwd" / "_unused")
        r = handle(sj)
        shutil.rmtree(parent / "_work", ignore_errors=True)
        after = read_tree(parent, "hash")
        out["steps"].append({"diags": r.get("diags"), "exc": r.get("exc"), "cli_exit": r.get("cli_exit"), "accepted": r.get("accepted"), "fs_events": r.get("fs_events"),
                             "before": before, "after": after, "outdir_existed": outdir_existed, "cli_stderr": (r.get("cli_stderr") or "")[:600]})
    shutil.rmtree(parent, ignore_errors=True)
    return out


def handle_sandbox_only(job: dict) -> dict:
    """Run sandbox actions on an existing package directory (kept by an earlier job)."""
    pkgdir = Path(job["pkgdir"])
    r = SANDBOX.call({"root": str(pkgdir.parent), "pkg": pkgdir.name, "actions": job["sandbox"]}, timeout=float(job.get("sandbox_timeout", 90)), fresh=bool(job.get("fresh_sandbox")))
    return {"id": job.get("id"), "sandbox": r}


def main():
    for line in sys.stdin:
        line = line.strip()
        if not line:
            continue
        try:
            job = json.loads(line)
            if job.get("op") == "sandbox":
                out = handle_sandbox_only(job)
            elif job.get("op") == "history":
                out = handle_history(job)
            elif job.get("op") == "rmtree":
                shutil.rmtree(job["path"], ignore_errors=True)
                out = {"ok": True}
            else:
                out = handle(job)
        except BaseException as ex:
            out = {"_error": "worker-exception", "detail": f"{type(ex).__name__}: {ex}", "tb": traceback.format_exc()[-2000:]}
        _proto.write(json.dumps(out, default=str) + "\n")
        _proto.flush()


if __name__ == "__main__":
    main()
