"""Replay helper: regenerate the witness of a recorded violation in a fresh worker process."""
from __future__ import annotations

import json
import sys

from .common import cleanup
from .harness import Run


def main():
    rp = json.load(open(sys.argv[1]))
    print(f"property={rp['property']} key={rp['key']}\nwhat={rp['what']}\n")
    w = rp.get("witness") or {}
    docs_ = [(k, w[k]) for k in ("doc", "mutated", "variant", "base", "control", "ref_doc", "inline_doc", "permuted") if isinstance(w.get(k), dict) and "openapi" in w[k]]
    if not docs_ and isinstance((w.get("job") or {}).get("doc"), dict):
        docs_ = [("job.doc", w["job"]["doc"])]
    run = Run("REPLAY")
    for name, d in docs_:
        j = run.job(d, want=["tree", "manifest"], cfg=w.get("cfg") or {}, meta=w.get("meta") or "none", sandbox=[{"a": "import_all"}])
        r = run.pool.map([j])[0]
        print(f"--- witness document '{name}': accepted={r.get('accepted')} crash={r.get('exc')} files={len(r.get('tree') or {})}")
        for dg in (r.get("diags") or [])[:8]:
            print(f"    [{dg['level']}] {dg['header'].strip()[:100]} | {(dg['detail'] or '')[:200]}")
        im = ((r.get("sandbox") or {}).get("results") or [{}])[0]
        for k in ("syntax", "errors", "unresolved"):
            for e in (im.get(k) or [])[:3]:
                print(f"    import {k}: {json.dumps(e)[:300]}")
        f = w.get("file")
        if f and f in (r.get("tree") or {}):
            print(f"    ---- {f} ----")
            print("\n".join("    " + ln for ln in r["tree"][f].splitlines()[:80]))
    run.pool.close()
    cleanup()


if __name__ == "__main__":
    main()
