"""C17 — equivalent documents generate identical clients (DESIGN.md section 8, C17).

Oracle: byte equality of the output trees of one document said in two notations: JSON vs YAML, file vs loopback URL
(JSON and YAML content types), `nullable: true` vs type list vs null union member, enum containing null vs the explicit
union of null and that enum, single-element allOf/oneOf/anyOf wrapper around a $ref vs the bare $ref - each rewrite
applied at a random subset of the positions where it is applicable.
"""
from __future__ import annotations

from .. import docs, rewrite
from ..common import rng, seed, tier
from ..harness import Run, artefact_kind, main_wrapper
from .c12 import first_text_diff, tree_diff


def main() -> int:
    quick = tier() == "quick"
    run = Run("C17")
    r = rng("C17", seed())
    ev, vd = run.ev, run.vd
    ev.rule = ("base documents: feature matrix + random documents (3.0 notation); per base, variants: serialisation (yaml), source (url json / url yaml), and each schema-notation rewrite at p in {1.0, 0.5} of applicable positions "
               "(property, items, additionalProperties, parameter / body / response schema, union member); oracle: tree(variant) == tree(base) bytewise, diagnostics equal. "
               "distinct = distinct (rewrite, positions rewritten > 0, base feature set) signatures; a variant where the rewrite applied nowhere is not counted")
    ev.assumptions = ["`type: [object, null]` for inline objects is excluded from the nullable->typelist rewrite (inline class naming legitimately differs: the member gets a type_N suffix in both spellings only when written as a union)",
                      "annotations (description/default/example) stay at the outer level when a schema is rewritten into a union"]
    bases = [(f"matrix:{l}", d, {"matrix", l}) for l, d in docs.matrix_docs() if l.startswith("3.0.3")][:: (2 if quick else 1)]
    bases += [(f"matrix:{l}", d, {"matrix", l}) for l, d in docs.matrix_docs() if l.startswith("3.1.0")][:: (4 if quick else 1)]
    for i in range(70 if quick else 900):
        d, feats = docs.random_doc(("C17", seed(), i), version="3.0.3" if i % 3 else "3.1.0")
        if i % 5 == 0:
            # the 'plain' spelling of an enum containing null: no nullable flag / null type beside it
            def strip(s, pos):
                if isinstance(s.get("enum"), list) and None in s["enum"]:
                    s = {k: v for k, v in s.items() if k != "nullable"}
                    if isinstance(s.get("type"), list):
                        ts = [t for t in s["type"] if t != "null"]
                        s["type"] = ts[0] if len(ts) == 1 else ts
                    nn = [v for v in s["enum"] if v is not None]
                    if nn and "default" not in s and r.random() < 0.6:
                        s["default"] = r.choice(nn)  # annotations stay at the outer level in both notations
                return s
            d = rewrite.map_schemas(d, strip)
            feats = feats | {"enum_null:plain"}
        bases.append((f"random:{i}", d, feats))
    # enums listing null with a default / description / example of their own, as property and as parameter
    for vi, vals in enumerate([["red", "green"], [1, 2, 3], ["only"]]):
        t = "string" if isinstance(vals[0], str) else "integer"
        e = {"type": t, "enum": vals + [None], "default": vals[-1], "description": "colour or nothing"}
        d = docs.base_doc("3.0.3", "Enum Null Default")
        d["components"]["schemas"] = {"Paint": {"type": "object", "properties": {"colour": docs.clone(e), "second": dict(docs.clone(e), default=vals[0]), "plain": {"type": t, "enum": vals + [None]}}, "required": ["plain"]},
                                      "Shade": docs.clone(e)}
        d["paths"] = {"/paint": {"get": {"operationId": "list_paint", "parameters": [{"name": "colour", "in": "query", "schema": docs.clone(e)}, {"name": "shade", "in": "query", "schema": {"$ref": "#/components/schemas/Shade"}}],
                                         "responses": {"200": {"description": "ok", "content": {"application/json": {"schema": {"$ref": "#/components/schemas/Paint"}}}}}}}}
        bases.append((f"enum_null_default:{vi}", d, {"enum_null:plain", "enum_null_default"}))
    # nullable beside an explicit type and a composition keyword (3.0 spelling)
    Rf = lambda n_: {"$ref": f"#/components/schemas/{n_}"}  # noqa: E731
    for vi in range(2):
        d = docs.base_doc("3.0.3", "Nullable Typed Composition")
        d["components"]["schemas"] = {
            "Cat": {"type": "object", "properties": {"meow": {"type": "boolean"}}}, "Dog": {"type": "object", "properties": {"bark": {"type": "integer"}}, "required": ["bark"]},
            "Household": {"type": "object", "required": ["pet"] if vi else [], "properties": {
                "pet": {"type": "object", "nullable": True, "oneOf": [Rf("Cat"), Rf("Dog")]}, "guard": {"type": "object", "nullable": True, "allOf": [Rf("Dog")]}, "any_pet": {"type": "object", "nullable": True, "anyOf": [Rf("Dog"), Rf("Cat")], "description": "either"},
                "stamp": {"type": "string", "nullable": True, "anyOf": [{"type": "string", "format": "date"}, {"type": "string", "format": "uuid"}]},
                "both": {"type": "object", "nullable": True, "allOf": [Rf("Dog"), {"type": "object", "properties": {"extra": {"type": "string"}}}]}}}}
        d["paths"] = {"/h": {"get": {"operationId": "get_h", "parameters": [{"name": "stamp", "in": "query", "schema": {"type": "string", "nullable": True, "oneOf": [{"type": "string", "format": "date"}, {"type": "string", "format": "uuid"}]}}],
                                     "responses": {"200": {"description": "ok", "content": {"application/json": {"schema": {"type": "object", "nullable": True, "oneOf": [Rf("Household"), Rf("Dog")]}}}}}}}}
        bases.append((f"nullable_typed_composition:{vi}", d, {"nullable_typed_composition"}))
    # 3.1 type lists naming "null" first and last, for every member type, as property / items / parameter / response
    for vi in range(2):
        d = docs.base_doc("3.1.0", "Type list order")
        members = {"s": {"type": "string"}, "d": {"type": "string", "format": "date"}, "dt": {"type": "string", "format": "date-time"}, "u": {"type": "string", "format": "uuid"}, "i": {"type": "integer"}, "n": {"type": "number"},
                   "b": {"type": "boolean"}, "a": {"type": "array", "items": {"type": "string"}}, "am": {"type": "array", "items": Rf("Cat")}, "o": {"type": "object", "properties": {"k": {"type": "string"}}}}
        props = {}
        for mk_, ms_ in members.items():
            for first in (True, False):
                props[f"{mk_}_{'nf' if first else 'nl'}"] = dict(docs.clone(ms_), type=(["null", ms_["type"]] if first else [ms_["type"], "null"]), **({"description": f"{mk_} or nothing"} if vi else {}))
        d["components"]["schemas"] = {"Cat": {"type": "object", "properties": {"meow": {"type": "boolean"}}}, "Parcel": {"type": "object", "required": ["s_nf", "o_nf"] if vi else [], "properties": props},
                                      "Wrapper": {"type": "object", "properties": {"list_of": {"type": "array", "items": {"type": ["null", "string"], "format": "date"}}, "extra": {"type": ["null", "array"], "items": {"type": ["null", "integer"]}}}}}
        d["paths"] = {"/parcel": {"get": {"operationId": "get_parcel", "parameters": [{"name": "since", "in": "query", "schema": {"type": ["null", "string"], "format": "date"}}, {"name": "n", "in": "query", "schema": {"type": ["integer", "null"]}}],
                                          "responses": {"200": {"description": "ok", "content": {"application/json": {"schema": Rf("Parcel")}}}, "201": {"description": "ok", "content": {"application/json": {"schema": {"type": ["null", "array"], "items": Rf("Cat")}}}}}}}}
        bases.append((f"typelist_order:{vi}", d, {"typelist_order"}))
    # an allOf child re-declaring inherited nullable / union properties with other annotations (description, example, default): the merge must not depend on the spelling of "nullable"
    for vi in range(2):
        d = docs.base_doc("3.0.3", "Redeclared nullable")
        N = lambda t_, **kw: dict({"type": t_, "nullable": True}, **kw)  # noqa: E731
        d["components"]["schemas"] = {
            "Cat": {"type": "object", "properties": {"meow": {"type": "boolean"}}},
            "Pet": {"type": "object", "required": ["name"] if vi else [], "properties": {"name": N("string", description="pet name"), "born": N("string", format="date", description="birthday"), "legs": N("integer", example=4),
                                                                                          "tags": N("array", items={"type": "string"}, description="labels"), "weight": N("number"), "chip": N("string", format="uuid", description="chip id"),
                                                                                          "mix": {"oneOf": [{"type": "string"}, {"type": "integer"}], "description": "either"}, "friend": {"nullable": True, "allOf": [Rf("Cat")], "description": "a cat"}}},
            "Dog": {"allOf": [Rf("Pet"), {"type": "object", "properties": {"name": N("string", description="dog name"), "born": N("string", format="date", description="whelped", example="2020-01-02"), "legs": N("integer", example=3, default=4),
                                                                            "tags": N("array", items={"type": "string"}, description="dog labels"), "weight": N("number", description="kg"), "chip": N("string", format="uuid"),
                                                                            "mix": {"oneOf": [{"type": "string"}, {"type": "integer"}], "description": "still either"}, "friend": {"nullable": True, "allOf": [Rf("Cat")], "description": "a feline friend"}, "bark": {"type": "boolean"}}}]},
            "Puppy": {"allOf": [Rf("Dog"), {"type": "object", "properties": {"name": N("string", description="puppy name")}}]}}
        d["paths"] = {"/pets": {"get": {"operationId": "list_pets", "responses": {"200": {"description": "ok", "content": {"application/json": {"schema": {"type": "array", "items": Rf("Dog")}}}}, "201": {"description": "ok", "content": {"application/json": {"schema": Rf("Puppy")}}}}}}}
        bases.append((f"redeclared_nullable:{vi}", d, {"redeclared_nullable"}))
    # documents with a nullable composing allOf carrying sibling annotations (3.0 spelling)
    for i in range(12 if quick else 120):
        d, feats = docs.random_doc(("C17n", seed(), i), version="3.0.3", n_ops=2)
        S = d["components"]["schemas"]
        mods = [k for k, v in S.items() if v.get("type") == "object" and "allOf" not in v]
        if len(mods) < 2:
            continue
        a, b = r.sample(mods, 2)
        S[a].setdefault("properties", {})["zq_nullable_composed"] = {"nullable": True, "description": "composed or null", "allOf": [{"$ref": f"#/components/schemas/{b}"}, {"type": "object", "properties": {"zq_more": {"type": "string"}}}]}
        S[a]["properties"]["zq_nullable_titled"] = {"nullable": True, "title": "Zq Titled Thing", "allOf": [{"type": "object", "properties": {"zq_only": {"type": "integer"}}}]}
        bases.append((f"nullable_allof:{i}", d, feats | {"nullable_allof_multi"}))
    # an enum listing null that is declared once and processed several times (path-item level, components/parameters, a component schema used by several
    # parameters and properties), under both enum styles: every use is said the same way in both notations
    for label_, d_ in docs.shared_enum_param_docs():
        for le_ in (False, True):
            bases.append((f"{label_}:{'literal' if le_ else 'enum'}", d_, {"shared_enum_params"}, {"literal_enums": le_}))
    jobs, info = [], {}
    for bi, base_ in enumerate(bases):
        label, d, feats = base_[:3]
        cfg = base_[3] if len(base_) > 3 else {"literal_enums": bi % 4 == 3}

        def add(kind, doc, n_rewritten, **kw):
            j = run.job(doc, want=["tree"], cfg=cfg, **kw)
            j["name"] = f"pkg{bi}"
            info[j["id"]] = (bi, kind, n_rewritten)
            jobs.append(j)
        add("base", d, 1)
        add("yaml", d, 1, fmt="yaml")
        add("url_json", d, 1, source="url", url_ctype="application/json")
        add("url_json_charset", d, 1, source="url", url_ctype="application/json; charset=utf-8")
        add("url_yaml", d, 1, source="url", url_ctype="application/yaml", fmt="yaml")
        if bi % 3 == 0:
            # characters outside the BMP: json.dumps spells them as surrogate-pair escapes, which only a JSON parser accepts
            da = docs.clone(d)
            da["info"]["description"] = "launch \U0001F680 café"
            da["components"]["schemas"]["ZqAstral"] = {"type": "string", "enum": ["go \U0001F680", "stay"], "description": "\U0001D11E clef"}
            add("base_astral", da, 1)
            add("astral_url_json", da, 1, source="url", url_ctype="application/json")
            add("astral_url_json_charset", da, 1, source="url", url_ctype="application/json; charset=utf-8")
            add("astral_url_json_upper", da, 1, source="url", url_ctype="Application/JSON;charset=UTF-8")
            add("astral_json_raw", da, 1, ensure_ascii=False)
            add("astral_yaml", da, 1, fmt="yaml")
        if bi % 6 == 0:
            dn = docs.clone(d)
            dn["info"]["description"] = "très grand café"
            dn["components"]["schemas"]["ZqAccent"] = {"type": "string", "enum": ["très grand", "petit"], "description": "Größe"}
            for enc in ("cp1252", "utf-16"):
                add(f"base_enc_{enc}", dn, 1, file_encoding=enc, ensure_ascii=False)
                add(f"yaml_enc_{enc}", dn, 1, fmt="yaml", file_encoding=enc)
                add(f"json_ascii_enc_{enc}", dn, 1, file_encoding=enc, ensure_ascii=True)
        for p in (1.0, 0.5):
            for kind, mk in (("nullable_typelist", lambda: rewrite.rw_nullable(r, p, "typelist")), ("nullable_member", lambda: rewrite.rw_nullable(r, p, "member")),
                             ("nullable_ref_member", lambda: rewrite.rw_nullable_ref(r, p)), ("nullable_typed_composition", lambda: rewrite.rw_nullable_typed_composition(r, p)), ("nullable_allof_multi", lambda: rewrite.rw_nullable_allof_multi(r, p)), ("enum_null_union", lambda: rewrite.rw_enum_null(r, p, "plain")), ("enum_null_union_nullable30", lambda: rewrite.rw_enum_null(r, p, "nullable30")),
                             ("enum_null_union_typelist31", lambda: rewrite.rw_enum_null(r, p, "typelist31")),
                             ("wrap_ref", lambda: rewrite.rw_wrap_ref(r, p)), ("wrap_ref_allOf", lambda: rewrite.rw_wrap_ref(r, p, "allOf")), ("wrap_ref_anyOf", lambda: rewrite.rw_wrap_ref(r, p, "anyOf")),
                             ("unwrap_ref", lambda: rewrite.rw_unwrap_ref(r, p)), ("typelist_member", lambda: rewrite.rw_typelist_member(r, p))):
                fn = mk()
                v = rewrite.map_schemas(d, fn)
                if fn.count[0] == 0:
                    continue
                add(f"{kind}@{p}", v, fn.count[0])
    rs = run.map(jobs, timeout=300)
    base = {}
    enc_base = {}
    for j, res in zip(jobs, rs):
        bi, kind, n = info[j["id"]]
        if kind == "base" and not res.get("_error"):
            base[bi] = res
        if kind == "base_astral" and not res.get("_error"):
            enc_base[(bi, "astral")] = res
        if kind.startswith("base_enc_") and not res.get("_error"):
            enc_base[(bi, kind[len("base_enc_"):])] = res
    for j, res in zip(jobs, rs):
        bi, kind, n = info[j["id"]]
        if kind in ("base", "base_astral") or kind.startswith("base_enc_") or bi not in base or res.get("_error"):
            continue
        b = base[bi]
        if kind.startswith("astral_"):
            b = enc_base.get((bi, "astral"))
            if b is None:
                continue
        if "_enc_" in kind:
            b = enc_base.get((bi, kind.split("_enc_")[1]))
            if b is None:
                continue
        if b.get("exc") or res.get("exc"):
            if bool(b.get("exc")) != bool(res.get("exc")):
                vd.violation(f"{kind.split('@')[0]}:crash_differs", f"{bases[bi][0]}: one notation crashes the generator, the other does not", {"base": bases[bi][1], "variant": j.get("doc"), "kind": kind})
            continue
        ev.count("pairs_compared")
        ev.count("positions_rewritten", n)
        k0 = kind.split("@")[0]
        if k0.startswith("wrap_ref"):
            k0 = "wrap_ref"
        w = {"base": bases[bi][1], "variant": j.get("doc"), "kind": kind, "cfg": j.get("cfg"), "job": {k: j.get(k) for k in ("fmt", "source", "url_ctype")}}
        db = sorted((d["level"], d["header"], d["detail"]) for d in (b.get("diags") or []))
        dv = sorted((d["level"], d["header"], d["detail"]) for d in (res.get("diags") or []))
        if len(db) != len(dv):
            extra = [x for x in dv if x not in db] or [x for x in db if x not in dv]
            comp_keys = {"/components/schemas/" + k for k in bases[bi][1]["components"]["schemas"]}
            reproc = any(x[1].startswith("\nUnable to process schema ") and (x[1].strip()[len("Unable to process schema "):].rstrip(":") not in comp_keys or "Attempted to generate duplicate models with name" in (x[2] or "")) for x in extra)
            if not reproc and k0 in ("wrap_ref", "unwrap_ref", "nullable_ref_member"):
                # the same re-processing surfacing through a nested union of the copied model ("Invalid property in union <inline nullable object>"): the diagnostic names a
                # component that the side with more diagnostics refers to through a single-element wrapper
                import json as _json
                more = _json.dumps(j.get("doc") if len(dv) > len(db) else bases[bi][1])
                for x in extra:
                    nm_ = x[1].strip()[len("Unable to process schema "):].rstrip(":")
                    if x[1].startswith("\nUnable to process schema ") and nm_ in comp_keys and (x[2] or "").startswith("Invalid property in union") and ('[{"$ref": "#' + nm_ + '"}]') in more:
                        reproc = True
            # one mechanism whatever rewrite put the single-reference wrapper there (wrap / unwrap / nullable allOf[ref] <-> oneOf[null, ref])
            vd.violation("single_ref_wrapper:diagnostics_differ:model_copy_reprocessed" if reproc else f"{k0}:diagnostics_differ", f"{bases[bi][0]}: {len(db)} vs {len(dv)} diagnostics: {extra[:1] or [x for x in db if x not in dv][:1]}", w)
            continue  # tree differences of this pair are consequences of the differing diagnostics
        for dk, rel in tree_diff(b.get("tree") or {}, res.get("tree") or {})[:2]:
            vd.violation(f"{k0}:{artefact_kind(rel)}:{dk}", f"{bases[bi][0]}: {rel} differs under {kind}: {first_text_diff((b.get('tree') or {}).get(rel), (res.get('tree') or {}).get(rel))}", dict(w, file=rel))
        ev.seen(("C17", k0, tuple(sorted(bases[bi][2]))[:10]))
        if len(ev.samples) < 4 and k0 not in [s.get("rewrite") for s in ev.samples] and n and k0 not in ("yaml", "url_json"):
            ev.sample({"rewrite": k0, "base": bases[bi][0], "positions_rewritten": n, "files_equal": len(res.get("tree") or {})})
    vd.inconclusive_if(ev.counters.get("pairs_compared", 0) < 200, "fewer than 200 notation pairs compared")
    return run.finish()


if __name__ == "__main__":
    main_wrapper(main)
