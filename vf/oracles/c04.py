"""C04 — responses are decoded per documented status and media type (DESIGN.md section 8, C04).

Events: the same calls as C03 with the MockTransport serving canned responses: each documented status with a payload
R-INSTANCE produces for its schema in its media type (JSON / +json / text / octet-stream / none) plus undocumented
statuses under both settings of raise_on_unexpected_status.  Oracle: R-RESPONSE (vf/expect.py).
"""
from __future__ import annotations

from .. import expect
from ..common import tier
from ..harness import Run, actions_results, main_wrapper
from ._ops import one_flag, ops_jobs, usable


def main() -> int:
    quick = tier() == "quick"
    run = Run("C04")
    run.ev.rule = ("every generated operation x canned responses (each documented status with an instance of its schema in its media type; undocumented statuses with raise_on_unexpected_status on and off) "
                   "x variants sync_detailed / sync / asyncio_detailed / asyncio; oracle R-RESPONSE: raw status, headers (unique marker header), content; parsed value equal to the served JSON (models by to_dict), "
                   "text as str, binary as File with the served bytes, no content as None; undocumented => None or UnexpectedStatus(status); detailed vs plain and blocking vs asyncio agree. "
                   "distinct = distinct (expectation class, response property kind, media type, variant) signatures")
    run.ev.assumptions = ["the parsed value of an untyped ({}) JSON response is not asserted (Appendix E)", "models are compared through their own to_dict()"]
    jobs, info = ops_jobs(run, "C04", quick)
    rs = run.map(jobs, timeout=300)
    for j, r in zip(jobs, rs):
        inf = info[j["id"]]
        if not usable(run, r):
            continue
        wb = {"doc": j["doc"], "cfg": inf["cfg"], "case": inf["label"]}
        from ._ops import import_defect
        pkg_defect = import_defect(actions_results(r))
        if pkg_defect:
            run.ev.count("packages_with_import_defects(C01)")
        from ..harness import class_shadows_template_import
        shadowing = class_shadows_template_import(r.get("manifest") or {})
        if shadowing:
            run.ev.count("documents_with_a_class_named_like_a_template_import")
        from ..harness import with_followups
        for a, res in with_followups(actions_results(r)):
            if a["a"] == "endpoint_info" and not a["x"].get("unmatched") and inf.get("deterministic_valid"):
                # census on the hand-built (known valid) documents: every documented status has its own branch
                run.ev.count("status_censuses")
                lost = [st for st in a["x"].get("doc_statuses", []) if st not in a["x"].get("man_statuses", [])]
                if lost:
                    run.vd.violation("documented_status_not_handled", f"{a['module']}: documented statuses {lost} of a valid document have no decoding branch (diagnostics: {[d['detail'][:80] for d in r.get('diags') or []][:2]})", dict(wb, module=a["module"]))
            if a["a"] != "call" or res.get("action_exc"):
                continue
            x = a["x"]
            rx = x["response"]
            w = dict(wb, module=a["module"], args=a["args"], x=x)
            results = {}
            for variant, vr in res.items():
                if vr.get("missing"):
                    continue
                if not vr.get("requests"):
                    run.ev.count("no_request_sent(C03)")
                    continue  # the call never reached the server: C03's concern
                run.ev.count("responses_checked")
                flags = rx.get("flags") or []
                for eff, det in expect.check_response(variant, vr, rx, bool(x["client"].get("raise"))):
                    key = eff if not flags else f"{eff.split(':')[0]}:{one_flag(flags)}"
                    if pkg_defect and eff.split(":")[0] in ("exception", "wrong_parsed", "annotation_mismatch"):
                        key = f"{eff.split(':')[0]}:package_with_unresolved_imports"
                    elif shadowing and eff.split(":")[0] in ("exception", "wrong_parsed", "annotation_mismatch"):
                        key = f"{eff.split(':')[0]}:class_shadows_template_import"  # document-level trigger (C01 mechanism), see harness.class_shadows_template_import
                    run.vd.violation(key, f"{a['module']}.{variant} status {rx['status']}: {det}", dict(w, variant=variant, observed=vr.get("result") or vr.get("exc")))
                results[variant] = vr
                run.ev.seen(("C04", rx.get("expect", "undocumented" if not rx["documented"] else "?"), (rx.get("prop") or {}).get("kind"), (rx.get("media") or "").split(";")[0], variant, bool(x["client"].get("raise"))))
            # detailed vs plain, blocking vs asyncio
            def parsed(v):
                vr = results.get(v)
                if not vr or vr.get("exc"):
                    return ("exc", (vr or {}).get("exc", {}).get("type"))
                r_ = vr["result"]
                return ("ok", expect.parsed_to_json(r_["parsed"] if r_.get("t") == "Response" else r_))
            for va, vb in (("sync_detailed", "sync"), ("sync_detailed", "asyncio_detailed"), ("asyncio_detailed", "asyncio")):
                if va in results and vb in results:
                    run.ev.count("variant_pairs_compared")
                    if parsed(va) != parsed(vb):
                        run.vd.violation("variants_disagree", f"{a['module']}: {va} and {vb} parse status {rx['status']} differently: {str(parsed(va))[:80]} vs {str(parsed(vb))[:80]}", w)
            if results and rx.get("expect") == "json" and len(run.ev.samples) < 3 and "sync_detailed" in results and not results["sync_detailed"].get("exc"):
                run.ev.sample({"operation": f"{x['method'].upper()} {x['path']}", "served": {"status": rx["status"], "media": rx.get("media"), "value": rx.get("value")}, "parsed": results["sync_detailed"]["result"]["parsed"]})
    run.vd.inconclusive_if(run.ev.counters.get("responses_checked", 0) < 300, "fewer than 300 responses reached the oracle")
    return run.finish()


if __name__ == "__main__":
    main_wrapper(main)
