"""C12 — same document, same bytes: deterministic and order-independent (DESIGN.md section 8, C12).

Oracle: byte equality of output trees across (i) two runs in one process, (ii) worker processes started with different
PYTHONHASHSEED values, (iii) for diagnostics-free documents, permutations of components.schemas and paths — each with
and without the ruff post-hooks.
"""
from __future__ import annotations

import copy

from .. import docs
from ..common import child_env, rng, seed, tier
from ..harness import Run, artefact_kind, main_wrapper


def permute(doc: dict, r, what: str) -> dict:
    d = copy.deepcopy(doc)
    if what in ("schemas", "both"):
        items = list(d["components"]["schemas"].items())
        r.shuffle(items)
        d["components"]["schemas"] = dict(items)
    if what in ("paths", "both"):
        items = list(d["paths"].items())
        r.shuffle(items)
        d["paths"] = dict(items)
    return d


def tree_diff(a: dict, b: dict):
    """[(kind, relpath)] where kind in fileset|contents."""
    out = []
    for k in sorted(set(a) | set(b)):
        if k not in a or k not in b:
            out.append(("fileset", k))
        elif a[k] != b[k]:
            out.append(("contents", k))
    return out


def first_text_diff(a, b) -> str:
    if not isinstance(a, str) or not isinstance(b, str):
        return ""
    la, lb = a.splitlines(), b.splitlines()
    for i, (x, y) in enumerate(zip(la, lb)):
        if x != y:
            return f"line {i + 1}: {x.strip()[:70]!r} vs {y.strip()[:70]!r}"
    return f"length {len(la)} vs {len(lb)} lines"


def main() -> int:
    quick = tier() == "quick"
    run = Run("C12")
    r = rng("C12", seed())
    ev, vd = run.ev, run.vd
    ev.rule = ("documents built to put >= 2 elements into every set-typed site (lazy/relative imports, union member types, literal values, required sets) with forward / mutual / self references and allOf parents after children; "
               "tree(D) compared bytewise across: same-process rerun; worker processes with PYTHONHASHSEED in a seed-dependent set; permutations of components.schemas and paths (diagnostics-free documents only); "
               "with and without ruff post-hooks. distinct = distinct (document feature set, comparison class, hooks) signatures")
    ev.assumptions = ["ruff from /venv/bin is the formatter used by the default post-hooks"]
    hashseeds = ["0", "1", str(2 + seed() % 1000), "random"] + ([] if quick else [str(10 + i) for i in range(8)] + ["random"] * 4)
    n_docs = 90 if quick else 900
    n_perm = 3 if quick else 12
    cases = []
    for label, d in docs.matrix_docs()[:: (4 if quick else 1)]:
        cases.append((f"matrix:{label}", d, {"matrix"}, {}))
    for label, d in docs.sharing_docs():
        cases.append((label, d, {"sharing", label}, {}))
        cases.append((label + ":le", d, {"sharing", label, "le"}, {"literal_enums": True}))
    for i in range(n_docs):
        d, feats = docs.random_doc(("C12", seed(), i), n_schemas=r.randint(4, 12))
        cases.append((f"random:{i}", d, feats, {"literal_enums": i % 3 == 2}))
    # base lane: hashseed 0, also same-process rerun and permutations
    base_jobs, minfo = [], {}
    for ci, (label, d, feats, cfg) in enumerate(cases):
        hooks = ci % 5 == 0
        for rep in (0, 1):
            j = run.job(d, want=["tree"], cfg=cfg, hooks=hooks)
            if label.startswith("sharing") and rep == 0:
                j["via"] = "subprocess"  # a fresh interpreter per generation: nothing remembered from other documents
            j["name"] = f"pkg{ci}"
            j["work"] = j["work"] + f"r{rep}"
            minfo[j["id"]] = (ci, "rerun" if rep else "base", None)
            base_jobs.append(j)
    res = run.map(base_jobs, timeout=300, lane="hs0", env=child_env(hashseed="0"))
    base_tree, clean = {}, {}
    for j, rr in zip(base_jobs, res):
        ci, kind, _ = minfo[j["id"]]
        if rr.get("_error") or rr.get("exc") or not rr.get("accepted"):
            continue
        if kind == "base":
            base_tree[ci] = rr["tree"]
            clean[ci] = not rr.get("diags")
        elif ci in base_tree:
            ev.count("rerun_pairs")
            for dk, rel in tree_diff(base_tree[ci], rr["tree"])[:3]:
                vd.violation(f"same_process_rerun:{artefact_kind(rel)}:{dk}", f"{cases[ci][0]}: {rel} differs between two runs in one process: {first_text_diff(base_tree[ci].get(rel), rr['tree'].get(rel))}", {"doc": cases[ci][1], "cfg": cases[ci][3], "file": rel})
            ev.seen(("rerun", tuple(sorted(cases[ci][2]))[:12], ci % 5 == 0))
    # permutations (diagnostics-free documents only)
    pjobs = []
    for ci, (label, d, feats, cfg) in enumerate(cases):
        if not clean.get(ci):
            continue
        for k in range(n_perm * (3 if label.startswith("sharing") else 1)):
            what = ["schemas", "paths", "both"][k % 3]
            pd = permute(d, r, what)
            j = run.job(pd, want=["tree"], cfg=cfg, hooks=ci % 5 == 0)
            if label.startswith("sharing"):
                j["via"] = "subprocess"
            j["name"] = f"pkg{ci}"
            minfo[j["id"]] = (ci, "perm", what)
            pjobs.append(j)
    res = run.map(pjobs, timeout=300, lane="hs0", env=child_env(hashseed="0"))
    for j, rr in zip(pjobs, res):
        ci, _, what = minfo[j["id"]]
        if rr.get("_error"):
            continue
        ev.count("permutation_pairs")
        if rr.get("exc") or not rr.get("accepted") or rr.get("diags"):
            vd.violation(f"{what}_order:diagnostics_appear", f"{cases[ci][0]}: permuting {what} of a diagnostics-free document produced diagnostics/crash: {(rr.get('diags') or [rr.get('exc')])[:1]}", {"doc": cases[ci][1], "permuted": j["doc"], "cfg": cases[ci][3]})
            continue
        for dk, rel in tree_diff(base_tree[ci], rr["tree"])[:3]:
            vd.violation(f"{what}_order:{artefact_kind(rel)}:{dk}", f"{cases[ci][0]}: {rel} differs after permuting {what}: {first_text_diff(base_tree[ci].get(rel), rr['tree'].get(rel))}", {"doc": cases[ci][1], "permuted": j["doc"], "cfg": cases[ci][3], "file": rel})
        ev.seen(("perm", what, tuple(sorted(cases[ci][2]))[:12], ci % 5 == 0))
    run.pool.close_lane("hs0")
    # hash seeds
    for hs in hashseeds[1:]:
        hjobs = []
        for ci, (label, d, feats, cfg) in enumerate(cases):
            if ci not in base_tree:
                continue
            j = run.job(d, want=["tree"], cfg=cfg, hooks=ci % 5 == 0)
            j["name"] = f"pkg{ci}"
            minfo[j["id"]] = (ci, "hashseed", hs)
            hjobs.append(j)
        lane = f"hs{hs}{len(run.pool.workers)}"
        res = run.map(hjobs, timeout=300, lane=lane, env=child_env(hashseed=None if hs == "random" else hs))
        for j, rr in zip(hjobs, res):
            ci = minfo[j["id"]][0]
            if rr.get("_error") or "tree" not in rr:
                continue
            ev.count("hashseed_pairs")
            if rr.get("exc") or not rr.get("accepted"):
                vd.violation("hashseed:outcome_differs", f"{cases[ci][0]}: generated under PYTHONHASHSEED=0 but under {hs}: {rr.get('exc') or [x['header'] for x in rr.get('diags') or []][:2]}", {"doc": cases[ci][1], "cfg": cases[ci][3], "hashseed": hs, "hooks": ci % 5 == 0, "exc": rr.get("exc")})
                continue
            for dk, rel in tree_diff(base_tree[ci], rr["tree"])[:3]:
                vd.violation(f"hashseed:{artefact_kind(rel)}:{dk}", f"{cases[ci][0]}: {rel} differs between PYTHONHASHSEED=0 and {hs}: {first_text_diff(base_tree[ci].get(rel), rr['tree'].get(rel))}", {"doc": cases[ci][1], "cfg": cases[ci][3], "file": rel, "hashseed": hs, "hooks": ci % 5 == 0})
            ev.seen(("hashseed", tuple(sorted(cases[ci][2]))[:12], ci % 5 == 0))
        run.pool.close_lane(lane)
    ev.extra["hashseeds"] = hashseeds
    ev.sample({"document": cases[-1][0], "schemas": list(cases[-1][1]["components"]["schemas"])[:6], "compared": ["rerun", "permutations x%d" % n_perm, "hash seeds %s" % hashseeds], "files": len(base_tree.get(len(cases) - 1, {}))})
    vd.inconclusive_if(ev.counters.get("hashseed_pairs", 0) < 50 or ev.counters.get("permutation_pairs", 0) < 50, "too few comparisons reached the oracle")
    return run.finish()


if __name__ == "__main__":
    main_wrapper(main)
