"""C03 — requests put every argument where the document says it goes (DESIGN.md section 8, C03).

Events: calls f(**args) for f in {sync_detailed, sync, asyncio_detailed, asyncio}; M-HTTP (httpx.MockTransport passed
through the real client construction path) captures what was sent.  Oracle: R-REQUEST (vf/expect.py).
"""
from __future__ import annotations

import json
import re

from .. import expect
from ..common import tier
from ..harness import Run, actions_results, main_wrapper
from ._ops import body_class, one_flag, ops_jobs, usable


def norm_capture(c: dict) -> dict:
    """Comparable image of a captured request (multipart boundaries normalised)."""
    hdr = sorted((k.lower(), v) for k, v in c["headers"] if k.lower() not in ("content-length",))
    content = c["content"]
    import base64
    import re
    raw = base64.b64decode(content)
    ct = next((v for k, v in hdr if k == "content-type"), "")
    m = re.search(r"boundary=([\w'()+,./:=?-]+)", ct)
    if m:
        raw = raw.replace(m.group(1).encode(), b"BOUNDARY")
        hdr = [(k, v.replace(m.group(1), "BOUNDARY") if k == "content-type" else v) for k, v in hdr]
    else:
        m2 = re.match(rb"--([0-9a-f]{32})\r\n", raw)  # multipart content under another Content-Type (multi-body dispatch finding)
        if m2:
            raw = raw.replace(m2.group(1), b"BOUNDARY")
    return {"method": c["method"], "url": c["url"], "headers": hdr, "content": raw.hex()}


def exc_key(x: dict, exc: dict, variant: str) -> str:
    """Mechanism key for a call that raised before sending: exception type x where x what kind of argument."""
    wh = exc.get("where") or ""
    where = "get_kwargs" if wh.endswith("_get_kwargs") else ("httpx" if wh.endswith(("sync_detailed", "asyncio_detailed")) else "other")
    if (x.get("body") or {}).get("ambiguous_dispatch"):
        return "multi_body_same_runtime_type"
    if "union_two_array_members" in ((x.get("body") or {}).get("flags") or []) and where == "get_kwargs":
        return "exception:union_two_array_members"
    if exc["type"] == "RuntimeError" and variant.startswith("asyncio") and (x.get("body") or {}).get("body_type") == "content":
        return "exception:RuntimeError:asyncio:octet_stream_body"
    nonstr = x.get("nonstr") or []
    if exc["type"] == "TypeError" and where == "httpx" and nonstr:
        # cookies of any non-str Python value; headers only for the kinds that have no header transform
        if "cookie" in nonstr and "got '" in exc["msg"]:
            return "exception:TypeError:non_string_cookie_value"
        m = re.search(r"Header value must be str or bytes, not <class '([\w.]+)'>", exc["msg"])
        if m and any(n.startswith("header:") for n in nonstr):
            return "exception:TypeError:non_string_header_value:" + m.group(1)
    return f"exception:{exc['type']}:{where}"


def main() -> int:
    quick = tier() == "quick"
    run = Run("C03")
    run.ev.rule = ("every generated operation of feature-matrix + random documents x 3 argument sets (all set / optionals unset / random) x variants sync_detailed, sync, asyncio_detailed, asyncio; "
                   "every argument value carries a unique token; oracle R-REQUEST: method, path slots, query multiset, header and cookie names/values, body by media type and Content-Type, "
                   "credential header, exactly one request, blocking == asyncio. distinct = distinct (parameter-location x kind set, body class, security) signatures")
    run.ev.assumptions = ["path argument values exclude / ? #", "header and cookie values are ASCII", "number arguments are passed as Python floats", "scalar spelling inside a slot is tolerant (DESIGN.md Appendix A)"]
    jobs, info = ops_jobs(run, "C03", quick)
    rs = run.map(jobs, timeout=300)
    for j, r in zip(jobs, rs):
        inf = info[j["id"]]
        if not usable(run, r):
            continue
        wb = {"doc": j["doc"], "cfg": inf["cfg"], "case": inf["label"]}
        from ._ops import endpoint_local_capture, import_defect
        pkg_defect = import_defect(actions_results(r))
        capture = endpoint_local_capture(r.get("manifest") or {})
        if pkg_defect:
            run.ev.count("packages_with_import_defects(C01)")
        if inf.get("deterministic_valid"):
            # hand-built, known-valid documents: every operation must have been generated
            from .. import docs as _docs
            have = {(a["x"].get("method"), a["x"].get("path")) for a, _ in actions_results(r) if a["a"] == "endpoint_info" and not a["x"].get("unmatched")}
            for path, m, op, item in _docs.iter_ops(j["doc"]):
                run.ev.count("valid_operations_expected")
                if (m, path) not in have:
                    run.vd.violation("valid_operation_not_generated", f"{inf['label']}: {m.upper()} {path} of a valid document was not generated: {[d['detail'] for d in r.get('diags') or [] if path in (d.get('header') or '')][:1]}", wb)
        for a, res in actions_results(r):
            if a["a"] == "endpoint_info":
                x = a["x"]
                if x.get("unmatched") or res.get("action_exc"):
                    run.ev.count("endpoint_unmatched")
                    continue
                # census: every parameter / supported request media type the document declares reaches the generated function
                manp = sorted([p["name"], loc] for loc, ps in x["params"].items() for p in ps)
                run.ev.count("parameter_censuses")
                if manp != x.get("doc_params", manp):
                    lost = [p for p in x["doc_params"] if p not in manp]
                    run.vd.violation("parameter_dropped_silently" if lost else "parameter_from_nowhere", f"{a['module']}: document declares parameters {x['doc_params']} but the generated operation has {manp}", dict(wb, module=a["module"]))
                op_diagnosed = any(f"{x['method'].upper()} {x['path']}" in (dg.get("header") or "") for dg in r.get("diags") or [])
                if x.get("doc_media") is not None and [m for m in x["doc_media"] if m not in x.get("man_media", [])] and not op_diagnosed:
                    run.vd.violation("request_media_type_dropped", f"{a['module']}: supported request media types {x['doc_media']} declared but only {x.get('man_media')} generated", dict(wb, module=a["module"]))
                sd = res.get("sync_detailed")
                if sd:
                    cl = next((p for p in sd["params"] if p["name"] == "client"), None)
                    if x["security"] and cl and cl["annotation"] != "AuthenticatedClient":
                        run.vd.violation("unauthenticated_client_accepted", f"{a['module']}: operation with security accepts client: {cl['annotation']}", dict(wb, module=a["module"]))
                    run.ev.count("signatures_checked")
                continue
            if a["a"] != "call" or res.get("action_exc"):
                continue
            # follow-up calls made on the same client are judged like calls of their own (against their own expectations)
            units = [(a, res)]
            for fi_, fu_ in enumerate(a.get("followups") or []):
                sub = {}
                for variant, vr in res.items():
                    if isinstance(vr, dict) and isinstance(vr.get("followups"), list) and fi_ < len(vr["followups"]):
                        sub[variant] = vr["followups"][fi_]
                units.append((fu_, sub))
                run.ev.count("followup_calls_on_a_used_client")
            for a, res in units:
                x = a["x"]
                w = dict(wb, module=a["module"], args=a["args"], x=x)
                caps = {}
                for variant, vr in res.items():
                    if vr.get("missing"):
                        continue
                    run.ev.count("calls")
                    reqs = vr.get("requests") or []
                    if vr.get("exc") and not reqs:
                        if pkg_defect and vr["exc"]["type"] in ("ModuleNotFoundError", "ImportError", "TypeError", "AttributeError", "KeyError", "ValueError", "NameError"):
                            run.vd.violation("exception:package_with_unresolved_imports", f"{a['module']}.{variant} raised {vr['exc']['type']} in a package whose modules do not all import (C01 finding)", dict(w, variant=variant))
                            continue
                        if vr["exc"]["type"] == "UnboundLocalError" and not re.search(r"local variable '[\x00-\x7f]*'", vr["exc"]["msg"]):
                            run.vd.violation("exception:UnboundLocalError:caseless_class_name_equals_module_local", f"{a['module']}.{variant}: {vr['exc']['msg'][:120]}", dict(w, variant=variant))
                            continue
                        run.vd.violation(exc_key(x, vr["exc"], variant), f"{a['module']}.{variant} raised {vr['exc']['type']}: {vr['exc']['msg'][:120]} at {vr['exc'].get('where')} (no request sent)", dict(w, variant=variant))
                        continue
                    if len(reqs) != 1:
                        run.vd.violation("request_count", f"{a['module']}.{variant} sent {len(reqs)} requests", dict(w, variant=variant))
                        continue
                    run.ev.count("requests_checked")
                    for eff, det in expect.check_request(reqs[0], x):
                        if capture and eff.split(":")[0] in ("extra", "missing", "wrong_slot"):
                            run.vd.violation("captured_name:derived_local_captures_parameter", f"{a['module']}.{variant}: {det}", dict(w, variant=variant))
                            continue
                        bodyish = 'body' in eff or 'form' in eff or 'part' in eff or 'content_type' in eff
                        if bodyish and (x.get("body") or {}).get("ambiguous_dispatch"):
                            run.vd.violation("multi_body_same_runtime_type", f"{a['module']}.{variant}: {det}", dict(w, variant=variant, capture=reqs[0]))
                            continue
                        fl = (x.get("body") or {}).get("flags") or []
                        if bodyish and fl:
                            run.vd.violation(f"{eff.split(':')[0]}:{one_flag(fl)}", f"{a['module']}.{variant}: {det}", dict(w, variant=variant, capture=reqs[0]))
                            continue
                        run.vd.violation(f"{eff}:{body_class(x) if bodyish else 'params'}", f"{a['module']}.{variant}: {det}", dict(w, variant=variant, capture=reqs[0]))
                    caps[variant] = norm_capture(reqs[0])
                    sig = ("C03", tuple(sorted(f"{loc}:{expect.kind_of(v)}" for loc in x["wire"] for v in x["wire"][loc].values())), body_class(x), x["security"], bool(x["client"].get("auth")))
                    run.ev.seen(sig)
                for va, vb in (("sync_detailed", "asyncio_detailed"), ("sync", "asyncio")):
                    if va in caps and vb in caps and caps[va] != caps[vb]:
                        run.vd.violation("sync_async_differ", f"{a['module']}: {va} and {vb} sent different requests", dict(w, a=caps[va], b=caps[vb]))
                    elif va in caps and vb in caps:
                        run.ev.count("sync_async_pairs_equal")
                if caps and not run.ev.samples:
                    c = res[next(iter(caps))]["requests"][0]
                    run.ev.sample({"operation": f"{x['method'].upper()} {x['path']}", "wire_args": x["wire"], "body": x.get("body"), "captured": {"url": c["url"], "headers": c["headers"][5:], "content_b64": c["content"][:120]}})
    run.vd.inconclusive_if(run.ev.counters.get("requests_checked", 0) < 300, "fewer than 300 requests reached the oracle")
    return run.finish()


if __name__ == "__main__":
    main_wrapper(main)
