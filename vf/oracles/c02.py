"""C02 — model decode/encode is a lossless JSON round trip (DESIGN.md section 8, C02).

Events: for class K generated from schema S and every instance v produced by R-INSTANCE: o = K.from_dict(v),
e = o.to_dict(), o2 = K.from_dict(e).  Refuted by e != v (JSON equality), e not plain JSON (exact types), o2 != o, or any
exception.  M-TYPE (annotation conformance of every decoded attribute) rides along and is reported under C11.
"""
from __future__ import annotations

from .. import docs, expect
from ..common import seed, tier
from ..harness import Run, actions_results, main_wrapper


from ._ops import one_flag


def mech(flags) -> str:
    if "class_shadows_template_import" in flags:
        return ":class_shadows_template_import"
    if "typed_single_reference_wrapper" in flags:
        return ":typed_single_reference_wrapper"
    if "caseless_class_name_equals_module_local" in flags:
        return ":caseless_class_name_equals_module_local"
    if "package_with_unresolved_imports" in flags:
        return ":package_with_unresolved_imports"
    if "derived_local_captures_property" in flags:
        return ":derived_local_captures_property"
    return (":" + one_flag(flags)) if flags else ""


def judge_roundtrip(vd, ev, a, res, witness_base, prop="C02", capture=None, pkg_defect=False):
    x = a["x"]
    flags = list(x.get("flags") or [])
    if pkg_defect:
        flags = ["package_with_unresolved_imports"]
    if capture:
        flags = ["derived_local_captures_property"]  # document-level trigger (C18 mechanism), see _ops.derived_local_capture
    if capture == "class_shadows_template_import":
        flags = ["class_shadows_template_import"]  # document-level trigger (C01 mechanism), see harness.class_shadows_template_import
    if capture == "caseless_class_name_equals_module_local":
        flags = ["caseless_class_name_equals_module_local"]  # document-level trigger (C03 mechanism), see _ops.caseless_class_equals_module
    if capture == "typed_single_reference_wrapper":
        flags = ["typed_single_reference_wrapper"]  # document-level trigger (C10 mechanism), see _ops.typed_reference_wrapper
    w = dict(witness_base, cls=a["cls"], value=a["value"], label=x.get("label"), flags=flags)
    ev.count("roundtrips")
    if res.get("action_exc"):
        ev.count("sandbox_action_failed")
        return False
    if res.get("exc"):
        ex = res["exc"]
        if ex["type"] == "ModuleNotFoundError" and "package_with_unresolved_imports" not in flags:
            flags = []  # the cascade mechanism, whatever else the instance contains
        vd.violation(f"exception:{ex['type']}:{res['stage']}{mech(flags)}", f"{a['cls']}.{res['stage']} raised {ex['type']}: {ex['msg']} (instance label {x.get('label')})", w)
        return True
    bad = False
    if res.get("nonplain"):
        vd.violation(f"non_json_output{mech(flags)}", f"{a['cls']}.to_dict() contains non-JSON values: {res['nonplain'][:3]}", w)
        bad = True
    if not expect.jeq(res["e"], a["value"]):
        vd.violation(f"lossy_roundtrip{mech(flags)}", f"{a['cls']}: " + expect.jdiff(res["e"], a["value"]), w)
        bad = True
    ai = res.get("addl_iface")
    if ai:
        ev.count("additional_property_interfaces_probed")
        if ai["keys"] > 0:
            ev.count("additional_property_interfaces_with_keys")
        if ai.get("problem"):
            vd.violation(f"additional_properties_interface{mech(flags)}", f"{a['cls']}: {ai['problem']}", w)
            bad = True
    if res.get("eq2") is False:
        vd.violation(f"redecode_differs{mech(flags)}", f"{a['cls']}: from_dict(to_dict(o)) != o", w)
        bad = True
    return bad


def main() -> int:
    quick = tier() == "quick"
    run = Run("C02")
    run.ev.rule = ("every object component schema of every accepted document (feature matrix: 40 kinds x required/optional x nullable, both OpenAPI versions, both enum styles; plus random recursive "
                   "documents) x instances by presence pattern (required-only, all, each optional alone, each nullable null, each union branch, random subsets); oracle: to_dict(from_dict(v)) == v under "
                   "JSON equality, exact-type plainness, second decode equal. distinct = distinct (schema kind set of the model, instance label class, generator flags) signatures")
    run.ev.assumptions = ["formatted strings are generated in canonical spelling (datetime.isoformat / lower-case uuid)", "format: binary is excluded from JSON models",
                          "instances are produced by the harness's own R-INSTANCE generator and self-validated against its JSON-schema-subset validator"]
    jobs, info = [], {}
    for label, d in docs.matrix_docs():
        for le in (False, True):
            j = run.job(d, want=["manifest"], plan={"fn": "models", "args": {"seed": seed(), "per_model": 14}}, cfg={"literal_enums": le})
            info[j["id"]] = {"label": "matrix:" + label, "cfg": {"literal_enums": le}, "features": {label.split(":")[1]}}
            jobs.append(j)
    for label, d in docs.sharing_docs():
        # components that are JSON values and multipart / form bodies / responses at once
        j = run.job(d, want=["manifest"], plan={"fn": "models", "args": {"seed": seed(), "per_model": 14}})
        info[j["id"]] = {"label": label, "cfg": {}, "features": {"sharing"}}
        jobs.append(j)
    for label, d in docs.union_model_docs():
        for le in (False, True):
            j = run.job(d, want=["manifest"], plan={"fn": "models", "args": {"seed": seed(), "per_model": 40}}, cfg={"literal_enums": le})
            info[j["id"]] = {"label": label, "cfg": {"literal_enums": le}, "features": {"union_models", label.split(":")[1]}}
            jobs.append(j)
    for k, (label, d) in enumerate(docs.interplay_docs()):
        if not d["components"]["schemas"] or (quick and k % 3 and "enum_same_class_name" not in label and "redeclared_required" not in label and "single_member_union" not in label and "same_identifier" not in label):
            continue
        for le in ((False, True) if "enum_same_class_name" in label else (k % 2 == 0,)):
            j = run.job(d, want=["manifest"], plan={"fn": "models", "args": {"seed": seed(), "per_model": 12 if "enum_same_class_name" in label else 8}}, cfg={"literal_enums": le})
            info[j["id"]] = {"label": label, "cfg": {"literal_enums": le}, "features": {"interplay", label.split(":")[1].rsplit("_", 1)[0]}}
            jobs.append(j)
    n = 220 if quick else 5000
    for i in range(n):
        d, feats = docs.random_doc(("C02", seed(), i), hostile=[0, 0, 0.3][i % 3])
        cfg = {"literal_enums": i % 4 == 3}
        j = run.job(d, want=["manifest"], plan={"fn": "models", "args": {"seed": seed() * 100003 + i, "per_model": 10 if quick else 16}}, cfg=cfg)
        info[j["id"]] = {"label": f"random:{i}", "cfg": cfg, "features": feats}
        jobs.append(j)
    rs = run.map(jobs, timeout=300)
    kinds_seen = set()
    for j, r in zip(jobs, rs):
        inf = info[j["id"]]
        if r.get("_error") or r.get("plan_error") or (r.get("sandbox") or {}).get("_error"):
            run.ev.count("case_unusable")
            continue
        if r.get("exc") or not r.get("accepted"):
            run.ev.count("not_generated")
            continue
        wb = {"doc": j["doc"], "cfg": inf["cfg"], "case": inf["label"]}
        from ._ops import derived_local_capture
        from ._ops import import_defect
        pkg_defect = import_defect(actions_results(r))
        if pkg_defect:
            run.ev.count("packages_with_import_defects(C01)")
        capture = derived_local_capture(r.get("manifest") or {})
        if capture:
            run.ev.count("documents_with_derived_local_capture_trigger")
        from ._ops import caseless_class_equals_module
        if not capture and caseless_class_equals_module(r.get("manifest") or {}):
            capture = "caseless_class_name_equals_module_local"
        from ._ops import typed_reference_wrapper
        if not capture and typed_reference_wrapper(j["doc"]):
            capture = "typed_single_reference_wrapper"
        from ..harness import class_shadows_template_import
        if class_shadows_template_import(r.get("manifest") or {}):
            capture = "class_shadows_template_import"
            run.ev.count("documents_with_a_class_named_like_a_template_import")
        nrt = 0
        for a, res in actions_results(r):
            if a["a"] != "roundtrip":
                continue
            nrt += 1
            bad = judge_roundtrip(run.vd, run.ev, a, res, wb, capture=capture, pkg_defect=pkg_defect)
            lab = (a["x"].get("label") or "").split(":")[0]
            run.ev.seen(("C02", tuple(sorted(f for f in inf["features"] if f.startswith(("kind:", "null:", "addl:", "union:")) or not f.count(":"))), lab, tuple(a["x"].get("flags") or [])))
            if not bad and lab in ("max", "branch") and inf["label"].startswith("random"):
                run.ev.sample({"class": a["cls"], "label": a["x"].get("label"), "value": a["value"], "encoded": res.get("e")}, cap=4)
        kinds_seen |= {f for f in inf["features"]}
        if nrt == 0:
            run.ev.count("documents_without_models")
    run.ev.extra["features_seen"] = sorted(kinds_seen)
    run.vd.inconclusive_if(run.ev.counters.get("roundtrips", 0) < 500, "fewer than 500 round trips reached the oracle")
    return run.finish()


if __name__ == "__main__":
    main_wrapper(main)
