"""C14 — enumerations and constants admit exactly the declared values (DESIGN.md section 8, C14).

Per enum (str / int, with / without null, with / without default, inline / referenced, both styles): number of members
== number of distinct non-null values; every listed value decodes, its member's wire value is that value, and it
re-encodes unchanged; unlisted values of the right and of the wrong JSON type are *rejected* by from_dict; a null among
the values makes the property nullable (decodes to None) and is not a member; const accepts only its constant; value
lists whose derived member names coincide produce a diagnostic, never fewer members.
"""
from __future__ import annotations

from .. import docs, expect, names
from ..common import rng, seed, tier
from ..harness import Run, actions_results, main_wrapper

FIXED_LISTS = [
    ["a", "b"], [" a", "a ", "a"], ["red", "dark blue", "x-large"], ["a-b", "a.b", "a b"], ["a", "A"], ["ab", "a_b"], ["1st", "2nd"], ["", "x"], ["x" * 80, "y"], ["é", "e"], ["日本", "中国"], ["a b", "a  b"], ["+", "-"], ["*", "/"],
    ["true", "false"], ["None", "none"], ["class", "def"], ["1", "2"], ["a", "b", "c", "d", "e", "f", "g"], ["value_1", "VALUE_1"], ["Ünï", "unı"], ["a\tb", "a b"], ["#hash", "hash"], ["x²", "x2"], ["mro", "name", "value"], ["_a", "a_"], ["__", "_"],
    ["first", "VALUE_2", "3rd", "last"], ["VALUE_0", "", "z"], ["value_1", "2", "x"], ["VALUE_1", "a", "1"], ["a", "VALUE_3", "b", "4th"], ["Value 1", "9"],
    ['say "hi"', "plain"], ["it's", 'q"q', "both'\""], ["back\\slash", "x"], ['a"', "a"], ["%s", "{x}", "{{y}}"],
    [0, 1], [-1, 1], [0], [-5, 5, 50], [2**31, -(2**31)], [10, 100, 1000], [1, 2, 3, 4, 5, 6],
]
CONSTS = ["c", "", "with space", "quote'", 0, 7, -3, 2.5, True, False, "True", "7", " v1 ", "v2 ", "\tv3", " ", "a\u00a0"]


def unlisted(vals):
    base = vals[0]
    out = []
    if isinstance(base, str):
        out += ["zz-not-listed", base + "x" if base + "x" not in vals else base + "xy", base.upper() if base.upper() not in vals else "q", 12345, True, ["a"], {"k": 1}, 1.5]
        if "" not in vals:
            out.append("")
    else:
        out += [max(vals) + 1, min(vals) - 1, str(vals[0]), 1.5 if 1.5 not in vals else 2.5, ["x"], {"k": 1}]
    return [v for v in out if not any(type(v) is type(x) and v == x for x in vals)]


def main() -> int:
    quick = tier() == "quick"
    run = Run("C14")
    r = rng("C14", seed())
    ev, vd = run.ev, run.vd
    ev.rule = ("value lists: 33 fixed lists (case-only / punctuation-only / delimiter-only differences, leading digits, empty string, long, non-ASCII, keywords, enum-API names, negative / zero / large ints) + random lists; "
               "x {required, optional} x {no null, null listed} x {no default, default} x {inline, referenced} x {Enum classes, literal_enums}; consts of str / int / number / bool. One model per enum so that a rejection stays local. "
               "oracle: member census, listed values round-trip by value, unlisted values raise, null -> None, const exactness, colliding member names => diagnostic. distinct = distinct (value-list class, shape flags, style) signatures")
    lists = list(FIXED_LISTS)
    alphabet = ["a", "B", "c1", "-", ".", " ", "_", "é", "9", "x", "Y", "zz", "!", "/"]
    for _ in range(20 if quick else 1500):
        n = r.randint(1, 5)
        vals = []
        while len(vals) < n:
            v = "".join(r.choice(alphabet) for _ in range(r.randint(1, 4)))
            if v not in vals:
                vals.append(v)
        lists.append(vals)
    for _ in range(6 if quick else 400):
        lists.append(sorted({r.randint(-1000, 1000) for _ in range(r.randint(1, 5))}))
    jobs, info = [], {}
    for le in (False, True):
        for chunk in range(0, len(lists), 1):
            comps, cases = {}, {}
            for li, vals in enumerate(lists[chunk:chunk + 1]):
                for vi, (req, with_null, with_default, by_ref) in enumerate([(True, False, False, False), (False, True, False, False), (True, True, True, False), (False, False, True, True), (True, False, False, True), (False, True, False, True)]):
                    key = f"M{li}v{vi}"
                    sch = {"type": "string" if isinstance(vals[0], str) else "integer", "enum": list(vals) + ([None] if with_null else [])}
                    if with_null:
                        sch["nullable"] = True
                    if with_default:
                        sch["default"] = vals[-1]
                    if by_ref:
                        comps[f"E{li}v{vi}"] = sch
                        psch = {"$ref": f"#/components/schemas/E{li}v{vi}"}
                    else:
                        psch = sch
                    comps[key] = {"type": "object", "properties": {"p": psch}, "additionalProperties": False}
                    if req:
                        comps[key]["required"] = ["p"]
                    cases[key] = {"values": vals, "required": req, "null": with_null, "default": with_default, "ref": by_ref}
            d = docs.base_doc("3.0.3", "Enum API")
            d["components"]["schemas"] = comps
            acts = []
            j = run.job(d, want=["manifest"], cfg={"literal_enums": le}, plan={"fn": "c14", "args": {"cases": cases}})
            info[j["id"]] = ("enum", le, cases)
            jobs.append(j)
        # two enums deriving the same class name (inline Order.status_code vs OrderStatus.code), by value-list relation
        for ri, (rel, v1, v2) in enumerate([("equal", ["new", "paid", "shipped"], ["new", "paid", "shipped"]), ("later_subset", ["new", "paid", "shipped"], ["new", "paid"]), ("later_superset", ["new", "paid"], ["new", "paid", "shipped"]),
                                            ("disjoint", ["new", "paid"], ["x", "y"]), ("overlap", ["new", "paid"], ["paid", "late"]), ("int_subset", [1, 2, 3], [1, 2]), ("int_superset", [1, 2], [1, 2, 3]),
                                            # value lists that differ only in what member naming erases: the member *names* coincide, the values do not
                                            ("same_names_case", ["active", "idle"], ["Active", "IDLE"]), ("same_names_punct", ["on-hold", "open"], ["on_hold", "open"]), ("same_names_positional", ["1-queued", "2-done"], ["3-failed", "4-gone"])]):
            for flip in (False, True):
                t = "string" if isinstance(v1[0], str) else "integer"
                a = {"type": "object", "properties": {"status_code": {"type": t, "enum": v1}}, "additionalProperties": False}
                b = {"type": "object", "properties": {"code": {"type": t, "enum": v2}}, "additionalProperties": False}
                comps = {"Order": a, "OrderStatus": b} if not flip else {"OrderStatus": b, "Order": a}
                cases = {"Order": {"values": v1, "required": False, "null": False, "default": False, "ref": False, "prop": "status_code", "clash": rel}, "OrderStatus": {"values": v2, "required": False, "null": False, "default": False, "ref": False, "prop": "code", "clash": rel}}
                d = docs.base_doc("3.0.3", "Clash API")
                d["components"]["schemas"] = comps
                j = run.job(d, want=["manifest"], cfg={"literal_enums": le}, plan={"fn": "c14", "args": {"cases": cases}})
                info[j["id"]] = ("enum", le, cases)
                jobs.append(j)
        # the same property declared as an enum by two allOf members: the composition lists the values both members list, or is diagnosed
        for ri, (rel, v1, v2) in enumerate([("equal", ["new", "paid"], ["new", "paid"]), ("subset", ["new", "paid", "shipped"], ["new", "paid"]), ("disjoint", ["new", "paid"], ["x", "y"]), ("overlap", ["new", "paid"], ["paid", "late"]),
                                            ("int_subset", [1, 2, 3], [1, 2]), ("int_overlap", [1, 2], [2, 3]), ("same_names_case", ["active", "idle"], ["Active", "IDLE"]), ("same_names_punct", ["on-hold", "open"], ["on_hold", "open"]),
                                            ("same_names_punct_subset", ["a-b", "c", "d"], ["a_b", "c"]), ("same_names_positional", ["1-queued", "2-done"], ["3-failed", "4-gone"]), ("same_names_positional_subset", ["1x", "2y", "3z"], ["2y", "1x"])]):
            for flip in (False, True):
                t = "string" if isinstance(v1[0], str) else "integer"
                a = {"type": "object", "properties": {"p": {"type": t, "enum": v1}}}
                b = {"type": "object", "properties": {"p": {"type": t, "enum": v2}}}
                comps = {"EA": a, "EB": b, "MX": {"allOf": [{"$ref": "#/components/schemas/" + ("EB" if flip else "EA")}, {"$ref": "#/components/schemas/" + ("EA" if flip else "EB")}], "additionalProperties": False}}
                both = [v for v in v1 if any(type(v) is type(x) and v == x for x in v2)]
                cases = {"MX": {"values": both or v1, "required": False, "null": False, "default": False, "ref": False, "prop": "p", "clash": "allof_" + rel, "must_be_diagnosed": not both,
                                "extra_unlisted": [v for v in v1 + v2 if v not in both]}}
                d = docs.base_doc("3.0.3", "Enum conjunction API")
                d["components"]["schemas"] = comps
                j = run.job(d, want=["manifest"], cfg={"literal_enums": le}, plan={"fn": "c14", "args": {"cases": cases}})
                info[j["id"]] = ("enum", le, cases)
                jobs.append(j)
        # consts (one per document so that a broken one stays local)
        for ci, c in enumerate(CONSTS):
            comps, cases = {}, {}
            for req in (True, False):
                key = f"C{ci}{'r' if req else 'o'}"
                comps[key] = {"type": "object", "properties": {"p": {"const": c}}, "additionalProperties": False}
                if req:
                    comps[key]["required"] = ["p"]
                cases[key] = {"const": c, "required": req}
            d = docs.base_doc("3.1.0", "Const API")
            d["components"]["schemas"] = comps
            j = run.job(d, want=["manifest"], cfg={"literal_enums": le}, plan={"fn": "c14", "args": {"cases": cases}})
            info[j["id"]] = ("const", le, cases)
            jobs.append(j)
    # an enum listing null, declared once and visited for several operations (path-item level, components/parameters)
    pjobs = []
    for le in (False, True):
        for label_, d in docs.shared_enum_param_docs():
            vals = [v for v in d["components"]["schemas"]["Dir"]["enum"] if v is not None]
            j = run.job(d, want=["manifest"], cfg={"literal_enums": le}, plan={"fn": "c14params", "args": {}})
            pjobs.append((j, le, vals))
    for (j, le, vals), res in zip(pjobs, run.map([x[0] for x in pjobs], timeout=300)):
        style = "literal" if le else "enum"
        if res.get("_error") or (res.get("sandbox") or {}).get("_error") or res.get("plan_error") or res.get("exc"):
            ev.count("case_unusable")
            continue
        seen_ops = set()
        for a, x in actions_results(res):
            if x.get("action_exc"):
                ev.count("sandbox_action_failed")
                continue
            xx = a["x"]
            if a["a"] == "endpoint_info":
                # a null among the values makes the parameter nullable - on every use of the schema, not only the first
                for p_ in ((x.get("sync_detailed") or {}).get("params") or []):
                    if p_["name"] in (xx.get("null_listing") or []):
                        ev.count("null_listing_parameter_signatures")
                        if not p_.get("admits_none"):
                            vd.violation(f"null_not_admitted:{style}:shared_parameter", f"{xx['case']}: parameter {p_['name']} lists null among its enum values but is annotated {p_.get('annotation')}", {"doc": j["doc"], "literal_enums": le, "operation": xx["case"]})
                continue
            vr = x.get("sync_detailed") or {}
            seen_ops.add(xx["case"])
            ev.count("shared_parameter_calls")
            w = {"doc": j["doc"], "literal_enums": le, "operation": xx["case"], "parameter": xx["param"], "value": xx["value"]}
            reqs = vr.get("requests") or []
            if vr.get("exc") and not reqs:
                vd.violation(f"{'null' if xx['value'] is None else 'listed'}_rejected:{style}:shared_parameter", f"{xx['case']}: passing {xx['value']!r} for {xx['param']} (enum {vals} + null) raised {vr['exc']['type']}: {vr['exc']['msg'][:100]}", w)
                continue
            if not reqs:
                continue
            c = reqs[0]
            sent = [q[1] for q in c["query"] if q[0] == xx["param"]] if xx["loc"] == "query" else [h[1] for h in c["headers"] if h[0].lower() == xx["param"].lower()]
            if xx["value"] is None:
                if sent and sent != ["null"] and sent != [""]:
                    vd.violation(f"null_not_none:{style}:shared_parameter", f"{xx['case']}: None for {xx['param']} transmitted as {sent}", w)
            elif len(sent) != 1 or not expect.spell_ok(xx["value"], sent[0]):
                vd.violation(f"listed_not_reproduced:{style}:shared_parameter", f"{xx['case']}: {xx['value']!r} for {xx['param']} transmitted as {sent}", w)
        if len(seen_ops) < 6:
            vd.violation(f"silently_dropped:{style}:shared_parameter", f"only operations {sorted(seen_ops)} of 6 accept their null-listing enum parameter (diagnostics: {[x['header'] for x in res.get('diags') or []][:2]})", {"doc": j["doc"], "literal_enums": le})
        ev.seen(("C14p", style, len(vals), j["doc"]["openapi"]))
    # enums with falsy members (0, "") as optional / required parameters in every location: a listed value is transmitted whatever its truth value
    fjobs = []
    for le in (False, True):
        for vals in ([0, 1, 2], ["", "a", "b"], [0], ["0", "false", ""]):
            t = "string" if isinstance(vals[0], str) else "integer"
            d = docs.base_doc("3.0.3", "Falsy Enum Parameters")
            d["components"]["schemas"] = {"Level": {"type": t, "enum": list(vals)}}
            prm = lambda n_, loc_, req_, ref_: {"name": n_, "in": loc_, "required": req_, "schema": ({"$ref": "#/components/schemas/Level"} if ref_ else {"type": t, "enum": list(vals)})}  # noqa: E731
            d["paths"] = {"/f1": {"get": {"operationId": "f_one", "parameters": [prm("level", "query", False, True), prm("X-Level", "header", False, True), prm("lvl", "cookie", False, False)], "responses": {"200": {"description": "ok"}}}},
                          "/f2": {"get": {"operationId": "f_two", "parameters": [prm("level", "query", True, False), prm("X-Level", "header", True, False), prm("X-Other", "header", False, False)], "responses": {"200": {"description": "ok"}}}}}
            j = run.job(d, want=["manifest"], cfg={"literal_enums": le}, plan={"fn": "c14params", "args": {"all_enums": True}})
            fjobs.append((j, le, vals))
    for (j, le, vals), res in zip(fjobs, run.map([x[0] for x in fjobs], timeout=300)):
        style = "literal" if le else "enum"
        if res.get("_error") or (res.get("sandbox") or {}).get("_error") or res.get("plan_error") or res.get("exc"):
            ev.count("case_unusable")
            continue
        for a, x in actions_results(res):
            if x.get("action_exc"):
                ev.count("sandbox_action_failed")
                continue
            xx = a["x"]
            if a["a"] == "endpoint_info":
                continue
            vr = x.get("sync_detailed") or {}
            ev.count("falsy_member_parameter_calls")
            w = {"doc": j["doc"], "literal_enums": le, "operation": xx["case"], "parameter": xx["param"], "value": xx["value"]}
            reqs = vr.get("requests") or []
            if vr.get("exc") and not reqs:
                if xx["loc"] == "cookie" and not isinstance(xx["value"], str):
                    continue  # (non-string cookie values: C03's listed finding)
                vd.violation(f"listed_rejected:{style}:parameter:{xx['loc']}", f"{xx['case']}: passing the listed value {xx['value']!r} for {xx['param']} raised {vr['exc']['type']}: {vr['exc']['msg'][:100]}", w)
                continue
            if not reqs:
                continue
            c = reqs[0]
            if xx["loc"] == "query":
                sent = [q[1] for q in c["query"] if q[0] == xx["param"]]
            elif xx["loc"] == "header":
                sent = [h[1] for h in c["headers"] if h[0].lower() == xx["param"].lower()]
            else:
                sent = [p_.split("=", 1)[1] for h in c["headers"] if h[0].lower() == "cookie" for p_ in h[1].split("; ") if p_.split("=", 1)[0] == xx["param"]]
            if len(sent) != 1 or not expect.spell_ok(xx["value"], sent[0]):
                vd.violation(f"listed_not_reproduced:{style}:parameter:{xx['loc']}", f"{xx['case']}: listed value {xx['value']!r} for {xx['loc']} parameter {xx['param']} transmitted as {sent}", w)
        ev.seen(("C14f", style, str(vals)))
    rs = run.map(jobs, timeout=300)
    for j, res in zip(jobs, rs):
        kind, le, cases = info[j["id"]]
        style = "literal" if le else "enum"
        if res.get("_error") or (res.get("sandbox") or {}).get("_error") or res.get("plan_error"):
            ev.count("case_unusable")
            continue
        if res.get("exc"):
            ev.count("generator_crashed(C06)")
            # attribute: which cases could have crashed it is unknown; C06 owns crashes
            continue
        man = res.get("manifest") or {}
        diag_text = " ".join((d.get("header") or "") + " " + (d.get("detail") or "") for d in res.get("diags") or [])
        generated = set()
        per_case = {}
        for a, x in actions_results(res):
            per_case.setdefault(a["x"]["case"], []).append((a, x))
        for key, case in cases.items():
            w = {"doc": {"components": {"schemas": {k: v for k, v in j["doc"]["components"]["schemas"].items() if k == key or k == "E" + key[1:] or str(case.get("clash") or "").startswith("allof_")}}}, "case": case, "literal_enums": le}
            obs = per_case.get(key)
            cls_of = (man.get("refs") or {}).get(f"/components/schemas/{key}")
            if not obs:
                # not generated: must be diagnosed
                ev.count("cases_rejected")
                if str(case.get("clash") or "").startswith("allof_"):
                    ev.count("allof_enum_conjunctions_diagnosed")
                if key not in diag_text and ("E" + key[1:]) not in diag_text:
                    vd.violation(f"silently_dropped:{style}", f"{key} was not generated and no diagnostic names it", w)
                continue
            ev.count("cases_generated")
            vals = case.get("values")
            if str(case.get("clash") or "").startswith("allof_"):
                ev.count("allof_enum_conjunctions_generated")
            if case.get("must_be_diagnosed"):
                vd.violation(f"conflicting_enums_merged:{style}", f"{key}: allOf members list {case.get('extra_unlisted')} for the same property with no value in common ({case.get('clash')}), yet the composition was generated without a diagnostic", w)
                continue
            for a, x in obs:
                what = a["x"]["what"]
                if x.get("action_exc"):
                    ev.count("sandbox_action_failed")
                    if x["action_exc"].get("type") in ("SyntaxError", "ImportError", "ModuleNotFoundError", "NameError", "AttributeError"):
                        vd.violation(f"generated_enum_unusable:{x['action_exc'].get('type')}:{style}", f"{key}: generated for values {vals if vals is not None else case.get('const')} but not usable: {x['action_exc'].get('msg', '')[:160]}", w)
                        break
                    continue
                if what == "members":
                    got = [m[1].get("v") for m in x.get("members") or []]
                    ev.count("censuses")
                    if sorted(map(repr, got)) != sorted(map(repr, vals)):
                        col = "colliding_member_names" if len(got) < len(vals) else "other"
                        vd.violation(f"member_census:{col}:{style}", f"{key}: members {got} for declared values {vals}", w)
                    if any(v is None for v in got):
                        vd.violation(f"null_is_member:{style}", f"{key}: None is a member", w)
                elif what == "listed":
                    ev.count("listed_value_decodes")
                    if x.get("exc"):
                        vd.violation(f"listed_rejected:{style}:{'const' if kind == 'const' else 'enum'}", f"{key}: listed value {a['value']} raised {x['exc']['type']}: {x['exc']['msg'][:80]}", w)
                    else:
                        if not expect.jeq(x["e"], a["value"]):
                            vd.violation(f"listed_not_reproduced:{style}:{'const' if kind == 'const' else 'enum'}", f"{key}: {a['value']} re-encoded as {x['e']}", w)
                        at = x["attrs"].get(a["x"].get("py") or "p") or next(iter(x["attrs"].values()), {}) or {}
                        inner = at.get("v") if at.get("t") == "enum" else at
                        pv = next(iter(a["value"].values()))
                        if at.get("t") == "enum" and not expect.jeq(inner.get("v"), pv):
                            vd.violation(f"member_wire_value:{style}", f"{key}: member {at.get('name')} has value {inner.get('v')!r} for listed {pv!r}", w)
                elif what == "unlisted":
                    ev.count("unlisted_value_decodes")
                    if not x.get("exc"):
                        pv = next(iter(a["value"].values()))
                        tcls = "same_type" if type(pv) is type((vals or [case.get("const")])[0]) else "other_type"
                        vd.violation(f"unlisted_accepted:{style}:{'const' if kind == 'const' else ('with_null' if case.get('null') else 'plain')}:{tcls}", f"{key}: value {pv!r} not in {vals if vals is not None else [case.get('const')]} was accepted and decoded to {x['attrs'].get('p')}", w)
                elif what == "null":
                    ev.count("null_decodes")
                    if x.get("exc"):
                        vd.violation(f"null_rejected:{style}", f"{key}: null listed among the values but from_dict raised {x['exc']['type']}", w)
                    elif (next(iter(x["attrs"].values()), {}) or {}).get("t") != "None" or not expect.jeq(x["e"], a["value"]):
                        vd.violation(f"null_not_none:{style}", f"{key}: null decoded to {x['attrs'].get('p')} and re-encoded {x['e']}", w)
                elif what == "null_unlisted":
                    ev.count("null_unlisted_decodes")
                    if not x.get("exc") and (next(iter(x["attrs"].values()), {}) or {}).get("t") == "None":
                        vd.violation(f"null_accepted_though_unlisted:{style}", f"{key}: null is not listed but was accepted as None", w)
            vclass = "int" if vals and isinstance(vals[0], int) else ("const" if kind == "const" else ("collide" if vals and len({names.collide_key(v).upper() or v for v in vals}) < len(vals) else "str"))
            ev.seen(("C14", vclass, case.get("required"), case.get("null"), case.get("default"), case.get("ref"), style, len(vals or [])))
            if len(ev.samples) < 3 and vals and len(vals) > 2:
                ev.sample({"values": vals, "case": {k: v for k, v in case.items() if k != "values"}, "style": style, "observations": len(obs)})
    vd.inconclusive_if(ev.counters.get("sandbox_action_failed", 0) > 0.1 * (ev.counters.get("listed_value_decodes", 0) + ev.counters.get("unlisted_value_decodes", 0)), "more than 10% of sandbox actions failed (generated package not importable?)")
    vd.inconclusive_if(ev.counters.get("listed_value_decodes", 0) < 300 or ev.counters.get("unlisted_value_decodes", 0) < 300, "too few decode observations")
    return run.finish()


if __name__ == "__main__":
    main_wrapper(main)
