"""C19 — generation writes only where told, never clobbers, converges on overwrite (DESIGN.md section 8, C19).

Events: M-FS audit stream (every file-system mutation during generate, resolved paths) + content-hash snapshots of a
sandbox parent directory (sentinel files above and beside the output directory, user files inside it) before and after
each command of a *history* of generate commands.  Reference model R-DIRSTATE: the expected directory state after each
command given the previous state, the document, and the overwrite flag.
"""
from __future__ import annotations

import copy
import os

from .. import docs
from ..common import rng, seed, tier
from ..harness import Run, main_wrapper

HOSTILE_TEXT = ["../escape", "../../up2", "/abs/path", "a/b/c", "..", "./dot", "C:\\win\\path", "x/../../y", "tag/../..", "name\x00nul", "~/home", "$(echo hi)", "${HOME}", "a;b", "..\\..\\w", "con", "-rf", "--flag"]


HOOK = 'echo ran >> HOOK_LOG_ZQ; for f in *.md; do echo hooked >> "$f"; done'  # hooks are run through the shell


def inside(path: str, root: str) -> bool:
    root = root.rstrip("/")
    return path == root or path.startswith(root + "/")


def main() -> int:
    quick = tier() == "quick"
    run = Run("C19")
    r = rng("C19", seed())
    ev, vd = run.ev, run.vd
    ev.rule = ("histories of 1-5 generate commands over 3-4 documents sharing a title (partially overlapping model / endpoint / tag sets) against one output location: overwrite on/off, explicit --output-path or title-derived directory "
               "(cwd inside the sandbox), API and CLI routes, user files inside the output directory, metadata flavours; plus single commands over documents whose title / tags / schema names / operationIds contain path separators, dot "
               "segments, absolute paths and shell metacharacters. Oracle: every audited mutation path inside the output directory; sentinels unchanged; no-overwrite on an existing directory changes nothing and reports an error; "
               "overwrite leaves fresh(D_last) + untouched user files. distinct = distinct (history shape, metas, routes) signatures")
    ev.assumptions = ["overwrite convergence is claimed for the same names and metadata flavour only (as the statement says)", "the chosen output directory of a title-derived run is the single new directory created under cwd"]
    n_hist = 150 if quick else 3000
    # ---- families of documents sharing a title
    families = []
    for f in range(12 if quick else 120):
        base, _ = docs.random_doc(("C19", seed(), f), n_schemas=6, n_ops=4)
        base["info"]["title"] = f"Family {f} API"
        fam = [base]
        for k in range(3):
            v = copy.deepcopy(base)
            sch = v["components"]["schemas"]
            keys = list(sch)
            # drop / add / rename models and operations so that sets overlap partially
            for kk in r.sample(keys, min(len(keys) - 1, r.randint(0, 2))):
                if not any(f"/{kk}\"" in __import__("json").dumps(o) for o in [sch[x] for x in sch if x != kk] + [v["paths"]]):
                    sch.pop(kk)
            sch[f"Extra{k}Model"] = {"type": "object", "properties": {"x": {"type": "string"}, "e": {"type": "string", "enum": ["p", "q"]}}}
            paths = list(v["paths"])
            if paths and r.random() < 0.7:
                v["paths"].pop(r.choice(paths))
            v["paths"][f"/extra{k}"] = {"get": {"operationId": f"extra_op_{k}", "tags": r.choice([["pets"], ["fresh-tag"], ["default"], ["fresh-tag", "pets"], ["default", "second-tag", "pets"]]), "responses": {"200": {"description": "ok"}}}}
            fam.append(v)
        # degenerate members: no operations at all / no schemas at all (whole sub-packages come and go)
        v = copy.deepcopy(base)
        v["paths"] = {}
        fam.append(v)
        v = copy.deepcopy(base)
        v["components"]["schemas"] = {}
        v["paths"] = {"/only": {"get": {"operationId": "only_op", "tags": ["solo"], "responses": {"200": {"description": "ok"}}}}}
        fam.append(v)
        # two members that differ only in defaults which are equal as Python values (True == 1 == 1.0, False == 0) but not as JSON values of the declared
        # type: state carried from one command to the next inside one process (a cache keyed by value) would make the later tree depend on the earlier document
        for valid in (False, True):
            v = copy.deepcopy(base)
            dv = (lambda a_, b_: a_ if valid else b_)
            v["components"]["schemas"]["DefaultedZq"] = {"type": "object", "properties": {
                "ratio": {"type": "number", "default": dv(1.0, True)}, "count": {"type": "integer", "default": dv(1, True)}, "flag": {"type": "boolean", "default": dv(True, 1)},
                "zero": {"type": "number", "default": dv(0.0, False)}, "none": {"type": "integer", "default": dv(0, False)}, "label": {"type": "string", "default": "1"}}}
            v["paths"]["/defaulted"] = {"get": {"operationId": "get_defaulted", "tags": ["pets"], "parameters": [{"name": "ratio", "in": "query", "schema": {"type": "number", "default": dv(1.0, True)}}],
                                                "responses": {"200": {"description": "ok", "content": {"application/json": {"schema": {"$ref": "#/components/schemas/DefaultedZq"}}}}}}}
            fam.append(v)
        families.append(fam)
    # ---- fresh trees per (family, doc, meta)
    fresh_jobs, fkey = [], {}
    for fi, fam in enumerate(families):
        for di, d in enumerate(fam):
            for meta in ("none", "poetry", "setup", "pdm"):
                for doa in (False, True):
                    for gat in (False, True):
                        if gat and fi % 3 != 1:
                            continue
                        j = run.job(d, want=["treehash"], meta=meta, cfg=dict({"docstrings_on_attributes": True} if doa else {}, **({"generate_all_tags": True} if gat else {})))
                        j["name"] = "out"
                        fkey[j["id"]] = (fi, di, meta, doa, gat)
                        fresh_jobs.append(j)
    fresh = {}
    for j, res in zip(fresh_jobs, run.map(fresh_jobs, timeout=300)):
        if not res.get("_error") and not res.get("exc") and res.get("accepted"):
            fresh[fkey[j["id"]]] = res["tree"]
    # ---- histories
    hjobs, hinfo = [], {}
    for h in range(n_hist):
        fi = h % len(families)
        meta = ["none", "poetry", "setup", "pdm"][(h // len(families)) % 4]
        titled = h % 5 == 0
        steps = []
        hooked = h % 3 == 1
        for si in range(r.randint(1, 5)):
            di = r.randrange(len(families[fi]))
            st = {"doc": families[fi][di], "meta": meta, "overwrite": r.random() < 0.6, "via": (lambda u: "subprocess" if u < 0.06 else ("cli" if u < 0.32 else None))(r.random()), "_di": di}
            if hooked:
                # a configured post-hook that leaves a trace in its working directory each time it runs
                st["cfg"] = {"post_hooks": [HOOK]}
            # options may change from one command to the next: the result is the fresh tree under the *current* options
            st["_doa"] = r.random() < 0.4
            if st["_doa"]:
                st["cfg"] = dict(st.get("cfg") or {}, docstrings_on_attributes=True)
            st["_gat"] = fi % 3 == 1 and r.random() < 0.5
            if st["_gat"]:
                # tag packages come and go with the option, too
                st["cfg"] = dict(st.get("cfg") or {}, generate_all_tags=True)
            if not titled:
                st["outdir_rel"] = "target/out"
            if si == 0 and not titled and h % 4 == 2:
                # the output location exists before the first command: empty, holding only dot entries, or holding an ordinary user file
                pre = ["empty", "dot_files", "dot_dir", "ordinary"][(h // 4) % 4]
                st["_pre"] = pre
                if pre == "empty":
                    st["user_dirs"] = ["target/out"]
                elif pre == "dot_files":
                    st["user_files"] = {"target/out/.gitignore": "# my ignores\n*.secret\n", "target/out/.env": "TOKEN=zq\n"}
                elif pre == "dot_dir":
                    st["user_files"] = {"target/out/.git/HEAD": "ref: refs/heads/main\n", "target/out/.git/config": "[core]\n"}
                else:
                    st["user_files"] = {"target/out/USER_NOTES_0.md": "mine", "target/out/.gitignore": "# my ignores\n"}
            if si >= 1 and r.random() < 0.4:
                base = "target/out" if not titled else None
                if base:
                    st["user_files"] = {f"{base}/USER_NOTES_{si}.md": f"user file {h}.{si}", f"{base}/my_extras/helper_{si}.py": "# user code\n"}
            steps.append(st)
        if not titled:
            os_steps = steps
        j = {"op": "history", "id": 100000 + h, "work": run.job()["work"], "steps": [{k: v for k, v in s.items() if not k.startswith("_")} for s in steps]}
        hinfo[j["id"]] = ("family", fi, meta, titled, steps)
        hjobs.append(j)
    # ---- hostile names, single command, title-derived directory
    for k, txt in enumerate(HOSTILE_TEXT):
        for slot in ("title", "tag", "schema", "operationId"):
            d = docs.clone(docs.matrix_docs()[0][1])
            d["paths"] = {"/a": {"get": {"operationId": "op_a", "tags": ["t"], "responses": {"200": {"description": "ok", "content": {"application/json": {"schema": {"$ref": "#/components/schemas/N"}}}}}}}}
            if slot == "title":
                d["info"]["title"] = txt
            elif slot == "tag":
                d["paths"]["/a"]["get"]["tags"] = [txt]
            elif slot == "schema":
                d["components"]["schemas"][txt] = {"type": "object", "properties": {"z": {"type": "string"}}}
            else:
                d["paths"]["/a"]["get"]["operationId"] = txt
            for meta in (("none", "poetry") if quick else ("none", "poetry", "setup", "pdm")):
                st = {"doc": d, "meta": meta, "overwrite": False}
                if slot != "title" and k % 2:
                    st["outdir_rel"] = "target/out"
                j = {"op": "history", "id": 500000 + len(hjobs), "work": run.job()["work"], "steps": [st]}
                hinfo[j["id"]] = ("hostile", slot, meta, "outdir_rel" not in st, [dict(st, _di=None)])
                hjobs.append(j)
    rs = run.map(hjobs, timeout=600)
    for j, res in zip(hjobs, rs):
        kind, a, meta, titled, steps = hinfo[j["id"]]
        if res.get("_error"):
            continue
        parent = res["parent"]
        ev.count("histories")
        out_root = None if titled else parent + "/target/out"
        state_exists = False
        shape = []
        for si, (st, obs) in enumerate(zip(steps, res["steps"])):
            ev.count("commands")
            if st.get("via") == "subprocess":
                ev.count("real_cli_processes")
            w = {"history": [{"doc_index": s.get("_di"), "meta": s["meta"], "overwrite": s["overwrite"], "via": s.get("via"), "outdir_rel": s.get("outdir_rel"), "user_files": list((s.get("user_files") or {})), "cfg": s.get("cfg")} for s in steps[: si + 1]],
                 "kind": kind, "step": si, "doc": st["doc"] if kind == "hostile" else None, "family_docs": [families[a][s["_di"]] for s in steps[: si + 1]] if kind == "family" else None}
            if obs.get("exc"):
                ev.count("generator_crashed(C06)")
                break
            before, after = obs["before"], obs["after"]
            # the output directory of a title-derived run: the one new top-level entry under cwd
            if titled:
                news = {p.split("/")[1] for p in after if p.startswith("cwd/")} | {p.split("/")[1] for p in before if p.startswith("cwd/")}
                if len(news) > 1:
                    vd.violation("several_output_directories", f"title-derived run created several entries under cwd: {sorted(news)}", w)
                out_root = parent + "/cwd/" + (sorted(news)[0] if news else "<none>")
            # (1) M-FS: every mutation inside the output directory
            for e in obs.get("fs_events") or []:
                ev.count("fs_events")
                paths = [p for p in e[1:] if isinstance(p, str) and p.startswith("/")] if e[0] != "popen" else ([e[2]] if e[2] else [])
                for pth in paths:
                    if not inside(pth, out_root) and not (e[0] == "os.mkdir" and inside(out_root, pth)):
                        vd.violation(f"write_outside_output:{e[0]}:{kind}", f"{e[0]} on {pth} outside output directory {out_root}", dict(w, event=e))
            # (2) sentinels and everything outside the output directory unchanged (content hashes)
            rel_root = out_root[len(parent) + 1:]
            for pth in set(before) | set(after):
                if not (pth == rel_root or pth.startswith(rel_root + "/")) and before.get(pth) != after.get(pth):
                    vd.violation(f"outside_changed:{kind}", f"{pth} outside the output directory changed ({before.get(pth)} -> {after.get(pth)})", w)
            existed = any(p.startswith(rel_root + "/") for p in before) or bool(obs.get("outdir_existed"))
            if st.get("_pre"):
                ev.count("first_command_on_preexisting_location:" + st["_pre"])
            errored = (obs.get("cli_exit") not in (None, 0)) if st.get("via") in ("cli", "subprocess") else any(d["level"] == "ERROR" for d in obs.get("diags") or [])
            inner_before = {p[len(rel_root) + 1:]: h for p, h in before.items() if p.startswith(rel_root + "/")}
            inner_after = {p[len(rel_root) + 1:]: h for p, h in after.items() if p.startswith(rel_root + "/")}
            shape.append(("ow" if st["overwrite"] else "no") + ("E" if existed else "N") + ("p" if st.get("via") == "subprocess" else "c" if st.get("via") == "cli" else "a"))
            if existed and not st["overwrite"]:
                ev.count("no_overwrite_on_existing")
                if inner_before != inner_after:
                    ch = [p for p in set(inner_before) | set(inner_after) if inner_before.get(p) != inner_after.get(p)]
                    vd.violation("clobbered_without_overwrite", f"existing output directory changed without --overwrite: {ch[:4]}", w)
                if not errored:
                    vd.violation("no_error_without_overwrite", "generating into an existing directory without --overwrite reported no error", w)
                continue
            if kind != "family":
                continue
            want = fresh.get((a, st["_di"], meta, bool(st.get("_doa")), bool(st.get("_gat"))))
            if want is None or errored:
                continue
            ev.count("convergence_checked")
            user = {p: h for p, h in inner_before.items() if ("USER_NOTES" in p or "my_extras/" in p or p in (".env", ".git/HEAD", ".git/config") or (p == ".gitignore" and p not in want and st.get("_pre")) or (p == ".gitignore" and p not in want and any(s_.get("_pre") for s_ in steps[:si])))}
            for p, h in user.items():
                if inner_after.get(p) != h and not ((st.get("cfg") or {}).get("post_hooks") and "/" not in p and p.endswith(".md")):
                    vd.violation("user_file_touched", f"user file {p} changed or disappeared on overwrite", w)
            got = {p: h for p, h in inner_after.items() if p not in user}
            if (st.get("cfg") or {}).get("post_hooks"):
                ev.count("commands_with_post_hook")
                if "HOOK_LOG_ZQ" not in got:
                    vd.violation("post_hook_not_run", "the configured post-hook left no trace in the output directory", w)
                # what the hook itself writes (its log, lines appended to *.md at the top level) is not the generator's output
                got = {p: h for p, h in got.items() if p != "HOOK_LOG_ZQ" and not ("/" not in p and p.endswith(".md"))}
                want = {p: h for p, h in want.items() if not ("/" not in p and p.endswith(".md"))}
                user = {p: h for p, h in user.items() if not ("/" not in p and p.endswith(".md"))}
            if got != want:
                stale = sorted(set(got) - set(want))
                missing = sorted(set(want) - set(got))
                diff = sorted(p for p in set(got) & set(want) if got[p] != want[p])
                key = "stale_files" if stale else ("missing_files" if missing else "content_differs")
                cls = "models" if any("/models/" in "/" + p for p in stale + missing + diff) else ("api" if any("/api/" in "/" + p for p in stale + missing + diff) else "other")
                vd.violation(f"overwrite_not_converged:{key}:{cls}", f"after overwrite the tree differs from a fresh generation: stale {stale[:3]} missing {missing[:3]} differing {diff[:3]}", w)
        ev.seen(("C19", kind, meta, titled, tuple(shape)))
        if len(ev.samples) < 3 and kind == "family" and len(steps) > 2:
            ev.sample({"history": [{"doc": s["_di"], "overwrite": s["overwrite"], "route": s.get("via") or "api"} for s in steps], "meta": meta, "title_derived_dir": titled, "fs_events_observed": sum(len(o.get("fs_events") or []) for o in res["steps"])})
    vd.inconclusive_if(ev.counters.get("fs_events", 0) < 1000 or ev.counters.get("convergence_checked", 0) < 30 or ev.counters.get("no_overwrite_on_existing", 0) < 10, "deciding counters too low")
    return run.finish()


if __name__ == "__main__":
    main_wrapper(main)
