"""C15 — allOf composition is the conjunction of its members (DESIGN.md section 8, C15).

(a) conjunction: the composed class has every property of every member, a property is mandatory iff some member requires
    it, and every instance valid against all members round-trips (C02 oracle on composed models);
(b) order independence + narrowest type (R-MERGE): for every ordered pair of kinds for a shared property name, allOf [M1,
    M2] and allOf [M2, M1] are both diagnosed, or both generated with the same effective attribute and decode behaviour,
    equal to the narrowest type where the table defines one; differing results without a diagnostic are a silently
    arbitrary choice.
"""
from __future__ import annotations

import itertools
import json

from .. import docs, expect
from ..common import rng, seed, tier
from ..harness import Run, actions_results, main_wrapper
from .c02 import judge_roundtrip

KINDS = {
    "str": {"type": "string"}, "date": {"type": "string", "format": "date"}, "datetime": {"type": "string", "format": "date-time"}, "uuid": {"type": "string", "format": "uuid"},
    "int": {"type": "integer"}, "num": {"type": "number"}, "bool": {"type": "boolean"},
    "enum_ab": {"type": "string", "enum": ["a", "b"]}, "enum_a": {"type": "string", "enum": ["a"]}, "enum_bc": {"type": "string", "enum": ["b", "c"]},
    "ienum_12": {"type": "integer", "enum": [1, 2]}, "ienum_1": {"type": "integer", "enum": [1]},
    "enum_dash": {"type": "string", "enum": ["done", "in-progress"]}, "enum_under": {"type": "string", "enum": ["done", "in_progress", "failed"]}, "enum_a_dash": {"type": "string", "enum": ["a-b"]}, "enum_a_under": {"type": "string", "enum": ["a_b"]},
    "any": {}, "arr_str": {"type": "array", "items": {"type": "string"}}, "arr_int": {"type": "array", "items": {"type": "integer"}}, "arr_num": {"type": "array", "items": {"type": "number"}},
    "const_a": {"const": "a"}, "const_b": {"const": "b"},
    "obj_x": {"type": "object", "properties": {"x": {"type": "string"}}}, "obj_y": {"type": "object", "properties": {"y": {"type": "integer"}}},
    "ref_n": {"$ref": "#/components/schemas/N"}, "union_is": {"oneOf": [{"type": "integer"}, {"type": "string"}]}, "union_ib": {"oneOf": [{"type": "integer"}, {"type": "boolean"}]},
}
# narrowest compatible kind where the statement defines one (unordered pairs)
NARROW = {frozenset(("int", "num")): "int", frozenset(("str", "date")): "date", frozenset(("str", "datetime")): "datetime", frozenset(("str", "enum_ab")): "enum_ab", frozenset(("str", "enum_a")): "enum_a",
          frozenset(("int", "ienum_12")): "ienum_12", frozenset(("int", "ienum_1")): "ienum_1", frozenset(("enum_ab", "enum_a")): "enum_a", frozenset(("ienum_12", "ienum_1")): "ienum_1",
          frozenset(("arr_int", "arr_num")): "arr_int"}
for _e in ("enum_bc", "enum_dash", "enum_under", "enum_a_dash", "enum_a_under"):
    NARROW[frozenset(("str", _e))] = _e
MANIFEST_KIND = {"enum_bc": ("EnumProperty", "LiteralEnumProperty"), "enum_dash": ("EnumProperty", "LiteralEnumProperty"), "enum_under": ("EnumProperty", "LiteralEnumProperty"),
                 "enum_a_dash": ("EnumProperty", "LiteralEnumProperty"), "enum_a_under": ("EnumProperty", "LiteralEnumProperty"), "str": "StringProperty", "date": "DateProperty", "datetime": "DateTimeProperty", "int": "IntProperty", "enum_ab": ("EnumProperty", "LiteralEnumProperty"), "enum_a": ("EnumProperty", "LiteralEnumProperty"),
                 "ienum_12": ("EnumProperty", "LiteralEnumProperty"), "ienum_1": ("EnumProperty", "LiteralEnumProperty"), "arr_int": "ListProperty"}
PROBES = ["a", "b", "c", "zz", "done", "in-progress", "in_progress", "failed", "a-b", "a_b", 1, 2, 9, 1.5, True, "2020-01-02", "2020-01-02T03:04:05+00:00", ["s"], [1], [1.5], {"x": "v"}, {"y": 3}, {"k": "kk"}, None, "00000000-0000-4000-8000-0000000000aa"]


def effective(pi: dict):
    """Comparable image of the merged property as handed to the templates (class names normalised away)."""
    d = {"kind": pi["kind"], "required": pi["required"], "default": (pi.get("default") or {}).get("raw")}
    if "values" in pi:
        d["values"] = sorted(map(repr, pi["values"].values() if isinstance(pi["values"], dict) else pi["values"]))
    if "inner" in pi:
        d["inner"] = effective(pi["inner"])
    if "inners" in pi:
        d["inners"] = [effective(i) for i in pi["inners"]]
    if "const" in pi:
        d["const"] = pi["const"]["raw"]
    if pi["kind"] == "ModelProperty":
        d["model"] = "N" if pi.get("cls") == "N" else "inline"
    return d


def main() -> int:
    quick = tier() == "quick"
    run = Run("C15")
    r = rng("C15", seed())
    ev, vd = run.ev, run.vd
    ev.rule = (f"(b) all {len(KINDS)}x{len(KINDS)} ordered pairs of property kinds for a shared property name x requiredness combinations x default placement: allOf [M1, M2] vs allOf [M2, M1] compared through the recorded manifest "
               f"(effective kind / values / requiredness / default) and {len(PROBES)} decode probes in the sandbox; narrowest type per R-MERGE table; "
               "(a) random documents with allOf chains, parents declared after children, inline members: composed class has the union of properties, required = any, valid instances round-trip. "
               "distinct = distinct (kind pair, requiredness, default, outcome) signatures")
    jobs, info = [], {}
    kinds = list(KINDS)
    pairs = [(a, b) for a in kinds for b in kinds if kinds.index(a) <= kinds.index(b)]
    variants = [("rr", True, True, None), ("ro", True, False, None), ("oo", False, False, None), ("od1", False, False, 1), ("od2", False, False, 2)]
    variants.append(("or", False, True, None))
    narrowing_pairs = [(a, b) for a, b in pairs if frozenset((a, b)) in NARROW or "any" in (a, b)]
    if quick:
        variants = variants[:1] + [variants[2]] + [variants[3]] + [variants[1], variants[5]]
    for le in (False, True):
        for vname, req1, req2, dflt in variants:
            pairs_v = narrowing_pairs if quick and vname in ("ro", "or") else pairs
            for chunk in range(0, len(pairs_v), 24):
                comps = {"N": {"type": "object", "properties": {"k": {"type": "string"}}}}
                cases = {}
                for pi_, (k1, k2) in enumerate(pairs_v[chunk:chunk + 24]):
                    i = chunk + pi_
                    s1, s2 = docs.clone(KINDS[k1]), docs.clone(KINDS[k2])
                    if dflt and k1 not in ("any", "obj_x", "obj_y", "ref_n", "arr_str", "arr_int", "arr_num"):
                        dv = {"str": "a", "date": "2020-01-02", "datetime": "2020-01-02T03:04:05+00:00", "uuid": "00000000-0000-4000-8000-0000000000aa", "int": 1, "num": 1, "bool": True, "enum_ab": "a", "enum_a": "a", "enum_bc": "b",
                              "ienum_12": 1, "ienum_1": 1, "const_a": "a", "const_b": "b", "union_is": 1, "union_ib": 1}.get(k1 if dflt == 1 else k2)
                        if dv is not None and "$ref" not in (s1 if dflt == 1 else s2):
                            (s1 if dflt == 1 else s2)["default"] = dv
                    comps[f"A{i}"] = {"type": "object", "properties": {"p": s1, "only_a": {"type": "string"}}, **({"required": ["p"]} if req1 else {})}
                    comps[f"B{i}"] = {"type": "object", "properties": {"p": s2, "only_b": {"type": "integer"}}, **({"required": ["p", "only_b"]} if req2 else {"required": ["only_b"]})}
                    comps[f"X{i}"] = {"allOf": [{"$ref": f"#/components/schemas/A{i}"}, {"$ref": f"#/components/schemas/B{i}"}]}
                    comps[f"Y{i}"] = {"allOf": [{"$ref": f"#/components/schemas/B{i}"}, {"$ref": f"#/components/schemas/A{i}"}]}
                    cases[str(i)] = {"k1": k1, "k2": k2, "req": req1 or req2, "variant": vname}
                d = docs.base_doc("3.1.0", "AllOf API")
                d["components"]["schemas"] = comps
                j = run.job(d, want=["manifest"], cfg={"literal_enums": le}, plan={"fn": "c15", "args": {"cases": list(cases), "probes": PROBES}})
                info[j["id"]] = ("pairs", le, cases)
                jobs.append(j)
    # (a) hand-built compositions: where `required` and `properties` live in different (inline / referenced) members
    P = lambda **kw: {"type": "object", "properties": {k: {"type": v} for k, v in kw.items()}}  # noqa: E731
    compo = {
        "Base": dict(P(id="integer", name="string"), required=["name"]),
        "RequiredAfter": {"allOf": [P(id="integer"), {"required": ["id"]}]},
        "RequiredBefore": {"allOf": [{"required": ["id"]}, P(id="integer")]},
        "ThreeMembers": {"allOf": [P(a="string"), P(b="integer"), {"required": ["a", "b"]}]},
        "OwnPropertyRequiredByMember": {"type": "object", "properties": {"own": {"type": "string"}}, "allOf": [{"required": ["own"]}]},
        "TopLevelRequiresMemberProperty": {"required": ["m"], "allOf": [P(m="string")]},
        "RefThenRequired": {"allOf": [{"$ref": "#/components/schemas/Base"}, {"required": ["id"]}]},
        "RequiredThenRef": {"allOf": [{"required": ["id"]}, {"$ref": "#/components/schemas/Base"}]},
        "RefAndInlineSameMember": {"allOf": [{"$ref": "#/components/schemas/Base"}, dict(P(extra="boolean"), required=["extra", "id"])]},
        "ChainChild": {"allOf": [{"$ref": "#/components/schemas/RefThenRequired"}, dict(P(more="string"), required=["more"])]},
        "TwoRefs": {"allOf": [{"$ref": "#/components/schemas/Base"}, {"$ref": "#/components/schemas/RequiredAfter"}]},
        # member properties whose Python names coincide (itemCount / item_count): both stay properties of the composition
        "CollideBase": P(itemCount="number", item_count="number"),
        "CollideNarrowed": {"allOf": [{"$ref": "#/components/schemas/CollideBase"}, P(itemCount="integer")]},
        "CollideNarrowedOther": {"allOf": [P(item_count="integer", other="string"), {"$ref": "#/components/schemas/CollideBase"}]},
        "CollideLeft": P(fooBar="string"), "CollideRight": P(foo_bar="string"),
        "CollideTwoParents": {"allOf": [{"$ref": "#/components/schemas/CollideLeft"}, {"$ref": "#/components/schemas/CollideRight"}, P(FooBar="integer")]},
    }
    for order in (0, 1):
        for le in (False, True):
            d = docs.base_doc("3.0.3", "Compositions")
            keys = list(compo) if order == 0 else list(reversed(compo))
            d["components"]["schemas"] = {k: docs.clone(compo[k]) for k in keys}
            j = run.job(d, want=["manifest"], cfg={"literal_enums": le}, plan={"fn": "models", "args": {"seed": seed(), "per_model": 8, "import": False}})
            info[j["id"]] = ("random", False, {"handbuilt_compositions", f"order{order}"})
            jobs.append(j)
    # (a) random documents with allOf
    for i in range(60 if quick else 4000):
        d, feats = docs.random_doc(("C15", seed(), i), n_schemas=r.randint(5, 12), n_ops=0)
        if not any("allOf" in v for v in d["components"]["schemas"].values()):
            continue
        j = run.job(d, want=["manifest"], plan={"fn": "models", "args": {"seed": seed() * 31 + i, "per_model": 8, "import": False}})
        info[j["id"]] = ("random", False, feats)
        jobs.append(j)
    rs = run.map(jobs, timeout=300)
    for j, res in zip(jobs, rs):
        kind, le, cases = info[j["id"]]
        if res.get("_error") or (res.get("sandbox") or {}).get("_error") or res.get("plan_error") or res.get("exc") or not res.get("accepted"):
            ev.count("case_unusable")
            continue
        man = res["manifest"]
        comps = j["doc"]["components"]["schemas"]
        if kind == "random":
            # (a) conjunction on composed models
            for name, sch in comps.items():
                if "allOf" not in sch:
                    continue
                ent = (man.get("refs") or {}).get(f"/components/schemas/{name}")
                if not ent or ent["kind"] != "ModelProperty" or ent["cls"] not in man["models"]:
                    continue
                m = man["models"][ent["cls"]]
                if len(sch["allOf"]) == 1 and "$ref" in sch["allOf"][0]:
                    continue
                mo = docs.merged_object(sch, comps)
                got = {p["name"]: p for p in m["props"]}
                ev.count("composed_models_checked")
                w = {"doc": {"components": {"schemas": comps}}, "model": name}
                for pn in mo["properties"]:
                    if pn not in got:
                        vd.violation("property_of_member_missing", f"{name}: property {pn!r} of a member schema is missing from the composed class", w)
                    elif got[pn]["required"] != (pn in mo["required"]):
                        vd.violation(f"requiredness:{'lost' if pn in mo['required'] else 'gained'}", f"{name}.{pn}: required in some member = {pn in mo['required']} but generated required = {got[pn]['required']}", w)
                for pn in got:
                    if pn not in mo["properties"]:
                        vd.violation("property_from_nowhere", f"{name}: generated property {pn!r} is declared by no member", w)
                ev.seen(("C15a", len(sch["allOf"]), tuple(sorted(f for f in cases if f.startswith("allOf")))))
            from ._ops import derived_local_capture
            capture = derived_local_capture(man)
            for a, x in actions_results(res):
                if a["a"] == "roundtrip" and "allOf" in comps.get(a["x"]["ref"].rsplit("/", 1)[-1], {}):
                    ev.count("composed_roundtrips")
                    if not x.get("action_exc"):
                        judge_roundtrip(vd, ev, a, x, {"doc": {"components": {"schemas": comps}}}, capture=capture)
                    else:
                        vd.violation(f"composed_model_unusable:{x['action_exc'].get('type')}", f"{a['cls']}: the generated composed model cannot be imported / found: {x['action_exc'].get('msg', '')[:160]}", {"doc": {"components": {"schemas": comps}}, "cls": a["cls"]})
            continue
        style = "literal" if le else "enum"
        obs = {}
        for a, x in actions_results(res):
            obs.setdefault((a["x"]["case"], a["x"]["order"]), []).append((a, x))
        diag_text = " ".join((d.get("header") or "") + " " + (d.get("detail") or "") for d in res.get("diags") or [])
        for ci, case in cases.items():
            k1, k2 = case["k1"], case["k2"]
            ex = (man.get("refs") or {}).get(f"/components/schemas/X{ci}")
            ey = (man.get("refs") or {}).get(f"/components/schemas/Y{ci}")
            gx = bool(ex and ex.get("cls") in man["models"])
            gy = bool(ey and ey.get("cls") in man["models"])
            w = {"doc": {"components": {"schemas": {k: v for k, v in comps.items() if k in ("N", f"A{ci}", f"B{ci}", f"X{ci}", f"Y{ci}")}}}, "kinds": [k1, k2], "variant": case["variant"], "literal_enums": le}
            ev.count("ordered_pairs")
            pairkey = "+".join(sorted((k1, k2)))
            if gx != gy:
                vd.violation(f"order_dependent:generated_vs_diagnosed:{pairkey}", f"allOf[{k1},{k2}] generated={gx} but allOf[{k2},{k1}] generated={gy}", w)
                continue
            if not gx:
                ev.count("both_diagnosed")
                if f"X{ci}" not in diag_text or f"Y{ci}" not in diag_text:
                    vd.violation(f"dropped_without_diagnostic:{pairkey}", f"allOf over {k1}/{k2} not generated but no diagnostic names X{ci}/Y{ci}", w)
                ev.seen(("C15b", pairkey, case["variant"], "diagnosed", style))
                continue
            ev.count("both_generated")
            px = next((p for p in man["models"][ex["cls"]]["props"] if p["name"] == "p"), None)
            py = next((p for p in man["models"][ey["cls"]]["props"] if p["name"] == "p"), None)
            if not px or not py:
                vd.violation(f"shared_property_missing:{pairkey}", f"composed class lacks the shared property p", w)
                continue
            fx, fy = effective(px), effective(py)
            if k1 != k2:
                ev.extra.setdefault("distinct_kind_pairs_generated_without_diagnostic", set()).add(pairkey + "->" + str(px["kind"]))
                if "any" not in (k1, k2) and frozenset((k1, k2)) not in NARROW:
                    # different types, neither the narrowing of the other (R-MERGE defines no narrowest type): only a diagnostic is allowed
                    vd.violation(f"silent_choice_between_incompatible_kinds:{pairkey}", f"allOf over {k1}/{k2} (variant {case['variant']}) was generated without a diagnostic as {fx} / {fy}", w)
            if fx != fy:
                diffk = [k for k in set(fx) | set(fy) if fx.get(k) != fy.get(k)]
                vd.violation(f"order_dependent:effective_property:{pairkey}:{'+'.join(sorted(diffk))}", f"allOf[{k1},{k2}] gives {fx} but allOf[{k2},{k1}] gives {fy}", w)
            if px["required"] != case["req"]:
                vd.violation(f"requiredness:{'lost' if case['req'] else 'gained'}:{pairkey}", f"p required in a member = {case['req']} but generated required = {px['required']}", w)
            nar = NARROW.get(frozenset((k1, k2))) if k1 != k2 else None
            if nar:
                mk = MANIFEST_KIND[nar]
                for which, f, pi in (("xy", fx, px), ("yx", fy, py)):
                    okk = pi["kind"] in (mk if isinstance(mk, tuple) else (mk,))
                    if okk and "enum" in nar:
                        okk = f.get("values") == sorted(map(repr, KINDS[nar]["enum"]))
                    if okk and nar == "arr_int":
                        okk = pi["inner"]["kind"] == "IntProperty"
                    if not okk:
                        vd.violation(f"not_narrowest:{pairkey}", f"allOf over {k1}/{k2} ({which}) resolved to {f} instead of the narrowest type {nar}", w)
            # decode behaviour equal in both orders
            ox = {json.dumps(a["value"], sort_keys=True): (("exc",) if x.get("exc") else ("ok", json.dumps(x.get("e"), sort_keys=True), json.dumps((x.get("attrs") or {}).get("p"), sort_keys=True))) for a, x in obs.get((ci, "X"), []) if not x.get("action_exc")}
            oy = {json.dumps(a["value"], sort_keys=True): (("exc",) if x.get("exc") else ("ok", json.dumps(x.get("e"), sort_keys=True), json.dumps((x.get("attrs") or {}).get("p"), sort_keys=True))) for a, x in obs.get((ci, "Y"), []) if not x.get("action_exc")}
            ev.count("decode_probes_compared", len(ox))
            for order_ in ("X", "Y"):
                broken = next((x["action_exc"] for a, x in obs.get((ci, order_), []) if x.get("action_exc")), None)
                if broken and broken.get("type") in ("SyntaxError", "NameError", "ImportError", "ModuleNotFoundError", "AttributeError", "TypeError"):
                    vd.violation(f"composed_model_unusable:{broken.get('type')}:{pairkey}", f"allOf over {k1}/{k2} (order {order_}, variant {case['variant']}) was generated but cannot be imported / used: {broken.get('msg', '')[:160]}", w)
                    break
            # conjunction soundness where the generated type validates (enums): an accepted value must be valid for *both* members
            if px["kind"] in ("EnumProperty", "LiteralEnumProperty") and "enum" in KINDS[k1] and "enum" in KINDS[k2]:
                for probe, o in ox.items():
                    pv = json.loads(probe).get("p")
                    if o[0] == "ok" and pv is not None and not (pv in KINDS[k1]["enum"] and pv in KINDS[k2]["enum"]):
                        vd.violation(f"accepts_value_invalid_for_a_member:{pairkey}", f"allOf over {k1}/{k2} accepts {pv!r}, which {k1 if pv not in KINDS[k1]['enum'] else k2} does not list", w)
                        break
            import re as _re
            norm = lambda t: tuple(_re.sub(r'"cls": "[^"]*"', '"cls": "_"', s) if isinstance(s, str) else s for s in t)  # noqa: E731
            for probe in ox:
                if probe in oy and norm(ox[probe]) != norm(oy[probe]):
                    vd.violation(f"order_dependent:decode:{pairkey}", f"probe {probe}: allOf[{k1},{k2}] -> {ox[probe][:2]} but allOf[{k2},{k1}] -> {oy[probe][:2]}", w)
                    break
            ev.seen(("C15b", pairkey, case["variant"], "generated", style))
            if len(ev.samples) < 4 and nar:
                ev.sample({"kinds": [k1, k2], "variant": case["variant"], "effective_xy": fx, "effective_yx": fy, "narrowest_expected": nar, "probes": len(ox)})
    ev.extra["distinct_kind_pairs_generated_without_diagnostic"] = sorted(ev.extra.get("distinct_kind_pairs_generated_without_diagnostic") or [])
    vd.inconclusive_if(ev.counters.get("ordered_pairs", 0) < 200 or ev.counters.get("decode_probes_compared", 0) < 1000, "too few pair observations")
    return run.finish()


if __name__ == "__main__":
    main_wrapper(main)
