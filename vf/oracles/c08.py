"""C08 — a bad piece of the document never damages unrelated output (DESIGN.md section 8, C08).

Differential: D (accepted without diagnostics) vs D' = D + inserted bad piece(s) under fresh names.  With dep = the
inserted items plus everything that (transitively) references a touched existing item: (i) a diagnostic exists;
(ii) every file of tree(D) not owned by an item in dep is byte-identical in tree(D') (models/__init__.py may only gain
names); (iv) tree(D') still imports completely (nothing that remains refers to anything removed).
"""
from __future__ import annotations

import copy
import json
import re

from .. import docs, names
from ..common import rng, seed, tier
from ..harness import Run, artefact_kind, dangling_mechanism, main_wrapper
from .c12 import first_text_diff

BAD_SCHEMAS = {
    "array_without_items": {"type": "array"},
    "dangling_ref": {"$ref": "#/components/schemas/NoSuchThingZq"},
    "remote_ref": {"$ref": "other.yaml#/components/schemas/Remote"},
    "url_ref": {"$ref": "https://example.invalid/api.json#/components/schemas/Remote"},
    "invalid_default": {"type": "integer", "default": "not-a-number"},
    "invalid_uuid_default": {"type": "string", "format": "uuid", "default": "nope"},
    "mixed_type_enum": {"enum": [1, "a"]},
    "bool_enum": {"enum": [True, False]},
    "bad_union_member": {"oneOf": [{"type": "string"}, {"type": "array"}]},
    "enum_with_array_member": {"enum": ["a", ["b", "c"]]},
    "enum_with_object_member": {"type": "string", "enum": [{"k": 1}, "a"]},
    "enum_of_floats": {"enum": [1.5, 2.5]},
}


def ref_graph(doc: dict):
    """component name -> set of component names it references (anywhere inside)."""
    comps = doc["components"]["schemas"]

    def refs(x, out):
        if isinstance(x, dict):
            if isinstance(x.get("$ref"), str) and x["$ref"].startswith("#/components/schemas/"):
                out.add(x["$ref"].rsplit("/", 1)[-1])
            for v in x.values():
                refs(v, out)
        elif isinstance(x, list):
            for v in x:
                refs(v, out)
        return out
    g = {k: refs(v, set()) for k, v in comps.items()}
    opg = {}
    for path, m, op, item in docs.iter_ops(doc):
        opg[(m, path)] = refs(op, set()) | refs(item.get("parameters") or [], set())
    return g, opg


def dependants(doc: dict, touched: set):
    g, opg = ref_graph(doc)
    dep = set(touched)
    changed = True
    while changed:
        changed = False
        for k, rs in g.items():
            if k not in dep and rs & dep:
                dep.add(k)
                changed = True
    ops = {k for k, rs in opg.items() if rs & dep}
    return dep, ops


def insert_bad(doc: dict, r, position: str, bad_key: str, n: int):
    """Returns (D', touched existing components, touched existing ops, description) or None."""
    d = copy.deepcopy(doc)
    comps = d["components"]["schemas"]
    bad = copy.deepcopy(BAD_SCHEMAS.get(bad_key, {}))
    fresh = f"ZqBad{n}"
    touched, touched_ops = set(), set()
    models = [k for k, v in comps.items() if v.get("type") == "object" and "allOf" not in v]
    if position == "new_component":
        comps[fresh] = bad
    elif position == "new_model_property":
        comps[fresh + "Holder"] = {"type": "object", "properties": {"ok_prop": {"type": "string"}, "zq_bad_prop": bad}}
    elif position == "new_array_items":
        comps[fresh + "List"] = {"type": "array", "items": bad}
    elif position == "new_union_member":
        comps[fresh + "Holder"] = {"type": "object", "properties": {"zq_u": {"oneOf": [{"type": "integer"}, bad]}}}
    elif position == "new_allof_parent":
        comps[fresh + "Parent"] = {"type": "object", "properties": {"zq_p": bad}}
        comps[fresh + "Child"] = {"allOf": [{"$ref": f"#/components/schemas/{fresh}Parent"}, {"type": "object", "properties": {"zq_own": {"type": "integer"}}}]}
    elif position == "new_additional":
        comps[fresh + "Dict"] = {"type": "object", "additionalProperties": bad}
    elif position == "existing_model_property":
        if not models:
            return None
        x = r.choice(models)
        comps[x].setdefault("properties", {})[f"zq_bad_{n}"] = bad
        touched.add(x)
    elif position == "depended_component":
        # a new bad component that a new chain of good components depends on (distance 1..3)
        comps[fresh] = bad
        prev = fresh
        for i in range(r.randint(1, 3)):
            nm = f"{fresh}Dep{i}"
            link_ = {"$ref": f"#/components/schemas/{prev}"}
            comps[nm] = [{"type": "object", "properties": {"zq_link": link_}}, {"type": "array", "items": link_}, {"type": "object", "properties": {"zq_pair": {"type": "array", "prefixItems": [{"type": "string"}, link_]}}},
                         {"type": "object", "properties": {"zq_pair": {"type": "array", "prefixItems": [link_, {"type": "integer"}], "items": {"type": "string"}}}}][(i + n) % 4]
            prev = nm
    elif position == "depended_family":
        # bad W <- parent P (property) <- {another dependant of P, allOf child of P, grandchild, union / dict / list users}, declared in random order
        # W either fails when it is created (the bad piece itself) or later, when its properties are processed
        comps[fresh] = bad if r.random() < 0.5 else {"type": "object", "properties": {"fine": {"type": "string"}, "zq_late": bad}}
        P = f"{fresh}P"
        fam = {
            P: {"type": "object", "properties": {"ok": {"type": "string"}, "zq_w": {"$ref": f"#/components/schemas/{fresh}"}}},
            f"{fresh}Other": {"type": "object", "properties": {"zq_p": {"$ref": f"#/components/schemas/{P}"}}},
            f"{fresh}Child": {"allOf": [{"$ref": f"#/components/schemas/{P}"}, {"type": "object", "properties": {"zq_c": {"type": "integer"}}}]},
            f"{fresh}Grand": {"allOf": [{"$ref": f"#/components/schemas/{fresh}Child"}, {"type": "object", "properties": {"zq_g": {"type": "integer"}}}]},
            f"{fresh}Lst": {"type": "object", "properties": {"zq_l": {"type": "array", "items": {"$ref": f"#/components/schemas/{P}"}}}},
            f"{fresh}Dct": {"type": "object", "additionalProperties": {"$ref": f"#/components/schemas/{fresh}Child"}},
            f"{fresh}Tup": {"type": "object", "properties": {"zq_t": {"type": "array", "prefixItems": [{"type": "string"}, {"$ref": f"#/components/schemas/{P}"}]}}},
            f"{fresh}TupItems": {"type": "object", "properties": {"zq_t": {"type": "array", "prefixItems": [{"$ref": f"#/components/schemas/{P}"}, {"type": "integer"}], "items": {"type": "boolean"}}}},
        }
        ks = list(fam)
        r.shuffle(ks)
        for k_ in ks:
            comps[k_] = fam[k_]
    elif position == "existing_model_sharing_a_reference":
        # X fails at model-processing time *after* a property that refers to a schema other models refer to as well
        g, _ = ref_graph(d)
        cands = [x for x in models if any(t in g.get(y, ()) for t in g.get(x, ()) for y in models if y != x)]
        if not cands:
            return None
        x = r.choice(cands)
        comps[x].setdefault("properties", {})[f"zq_bad_{n}"] = bad
        touched.add(x)
    elif position == "new_op_inline_bodies_then_bad_media":
        # several request media types: the good ones bring inline classes of their own, one has a bad schema
        good = {"type": "object", "properties": {"zq_inner": {"type": "object", "properties": {"deep": {"type": "string"}}}, "zq_kind": {"type": "string", "enum": ["zq_a", "zq_b"]}}}
        good2 = {"type": "object", "properties": {"zq_form_field": {"type": "string"}, "zq_mode": {"type": "string", "enum": ["zq_m", "zq_n"]}}}
        order = r.choice([("application/json", "application/x-www-form-urlencoded", "multipart/form-data"), ("application/x-www-form-urlencoded", "application/json", "multipart/form-data"), ("multipart/form-data", "application/json", "application/x-www-form-urlencoded")])
        bad_at = r.choice([1, 2, 2])
        content = {}
        goods = [good, good2]
        for i_, mt_ in enumerate(order):
            content[mt_] = {"schema": bad if i_ == bad_at else docs.clone(goods.pop(0))}
        d["paths"][f"/zq-bodies-{n}"] = {"post": {"operationId": f"zq_bodies_op_{n}", "requestBody": {"content": content}, "responses": {"200": {"description": "ok"}}}}
    elif position in ("new_op_param", "new_op_response", "new_op_body", "new_op_optional_path", "new_op_duplicate_params", "new_op_unparseable_body", "new_op_bad_status",
                      "new_op_schemaless_body", "new_op_malformed_media", "new_op_undeclared_placeholder", "new_op_param_not_in_path", "new_op_schemaless_param"):
        op = {"operationId": f"zq_bad_op_{n}", "responses": {"200": {"description": "ok"}}}
        path = f"/zq-bad-{n}"
        if position == "new_op_param":
            op["parameters"] = [{"name": "zq", "in": "query", "schema": bad}]
        elif position == "new_op_response":
            op["responses"]["200"]["content"] = {"application/json": {"schema": bad}}
        elif position == "new_op_body":
            op["requestBody"] = {"content": {"application/json": {"schema": bad}}}
        elif position == "new_op_optional_path":
            path += "/{zq}"
            op["parameters"] = [{"name": "zq", "in": "path", "required": False, "schema": {"type": "string"}}]
        elif position == "new_op_duplicate_params":
            op["parameters"] = [{"name": "zq", "in": "query", "schema": {"type": "string"}}, {"name": "zq", "in": "query", "schema": {"type": "integer"}}]
        elif position == "new_op_unparseable_body":
            op["requestBody"] = {"content": {"application/x-unknown-zq": {"schema": {"type": "string"}}}}
        elif position == "new_op_bad_status":
            op["responses"]["not-a-status"] = {"description": "bad"}
        elif position == "new_op_schemaless_body":
            op["requestBody"] = {"content": {"application/json": {}}}
        elif position == "new_op_malformed_media":
            op["requestBody"] = {"content": {r.choice(["garbage", "application/", ";charset=utf-8", "text"]): {"schema": {"type": "string"}}}}
        elif position == "new_op_undeclared_placeholder":
            path += "/{zq_undeclared}"
        elif position == "new_op_param_not_in_path":
            op["parameters"] = [{"name": "zq_ghost", "in": "path", "required": True, "schema": {"type": "string"}}]
        elif position == "new_op_schemaless_param":
            op["parameters"] = [{"name": "zq_filter", "in": "query", "content": {"application/json": {"schema": {"type": "object", "properties": {"a": {"type": "string"}}}}}}]
        d["paths"][path] = {"post": op}
    elif position in ("existing_op_extra_response", "new_op_inline_then_bad_response"):
        # a bad response is omitted on its own: the operation and the classes of its other responses stay
        if position == "existing_op_extra_response":
            ops = [(path, m, op) for path, m, op, _ in docs.iter_ops(d) if isinstance(op.get("responses"), dict)]
            if not ops:
                return None
            path, m, op = r.choice(ops)
        else:
            op = {"operationId": f"zq_mixed_op_{n}", "responses": {"200": {"description": "ok", "content": {"application/json": {"schema": {"type": "object", "properties": {
                "zq_inner": {"type": "object", "properties": {"deep": {"type": "string"}}}, "zq_kind": {"type": "string", "enum": ["zq_a", "zq_b"]}}}}}}}}
            d["paths"][f"/zq-mixed-{n}"] = {"get": op}
        free = [c for c in ("418", "451", "507", "226", "406") if c not in op["responses"]]
        if not free:
            return None
        badresp = {"description": "bad", "content": {"application/json": {"schema": bad}}}
        if r.random() < 0.7:
            op["responses"][free[0]] = badresp
        else:
            old = dict(op["responses"])
            op["responses"].clear()
            op["responses"][free[0]] = badresp
            op["responses"].update(old)
    elif position == "shadowed_path_item_param":
        # a path-item parameter that an operation re-declares (same name and location) is not read for that operation;
        # the other operations of the path item inherit the bad declaration and are omitted
        cands = []
        for path, m, op, item in docs.iter_ops(d):
            for p_ in op.get("parameters") or []:
                if isinstance(p_, dict) and p_.get("in") in ("query", "header", "cookie") and isinstance(p_.get("name"), str) and \
                        not any(isinstance(q, dict) and q.get("name") == p_["name"] and q.get("in") == p_["in"] for q in item.get("parameters") or []):
                    cands.append((path, m, p_))
        if not cands:
            return None
        path, m, p_ = r.choice(cands)
        item = d["paths"][path]
        item.setdefault("parameters", []).append({"name": p_["name"], "in": p_["in"], "schema": bad})
        for m2 in docs.METHODS:
            if m2 in item and m2 != m and not any(isinstance(q, dict) and q.get("name") == p_["name"] and q.get("in") == p_["in"] for q in item[m2].get("parameters") or []):
                touched_ops.add((m2, path))
    else:
        return None
    return d, touched, touched_ops, {"position": position, "bad": bad_key, "fresh": fresh}


def owner_files(manifest: dict, dep: set, dep_ops: set) -> tuple[set, set]:
    """Files of the *base* tree that belong to items in dep: modules of dep classes, of the inline classes reachable
    from them through their properties (closure over the recorded manifest, stopping at referenced components), and of
    dependent operations with their inline body / response classes."""
    models, enums = manifest.get("models") or {}, manifest.get("enums") or {}
    ref_classes = {e["cls"] for e in (manifest.get("refs") or {}).values() if e.get("cls")}
    module_of = {c: m["module"] for c, m in list(models.items()) + list(enums.items())}

    def classes_in(pi, out):
        if pi.get("cls"):
            out.add(pi["cls"])
        for sub in ([pi["inner"]] if "inner" in pi else []) + (pi.get("inners") or []):
            classes_in(sub, out)
        return out

    def closure(start: set) -> set:
        seen, todo = set(), list(start)
        while todo:
            c = todo.pop()
            if c in seen:
                continue
            seen.add(c)
            m = models.get(c)
            if not m:
                continue
            used = set()
            for pi in m["props"] + ([m["additional"]] if m.get("additional") else []):
                classes_in(pi, used)
            todo += [u for u in used if u not in ref_classes and u not in seen]
        return seen

    start = set()
    for ref, ent in (manifest.get("refs") or {}).items():
        if ref.rsplit("/", 1)[-1] in dep:
            if ent.get("cls"):
                start.add(ent["cls"])
            start |= {c for c in ent.get("classes") or [] if c not in ref_classes}
    files, classes = set(), set()
    for e in manifest.get("endpoints") or []:
        sk = re.sub(r"\{[^}]*\}", "{}", e["path"])
        if any(m == e["method"] and re.sub(r"\{[^}]*\}", "{}", p) == sk for (m, p) in dep_ops):
            files.add(f"api/{e['tag']}/{e['module']}.py")
            used = set()
            for loc in e["params"].values():
                for pi in loc:
                    classes_in(pi, used)
            for b in e["bodies"]:
                classes_in(b["prop"], used)
            for rr in e["responses"]:
                classes_in(rr["prop"], used)
            start |= {u for u in used if u not in ref_classes}
    for c in closure(start):
        classes.add(c)
        if c in module_of:
            files.add(f"models/{module_of[c]}.py")
    return files, classes


def main() -> int:
    quick = tier() == "quick"
    run = Run("C08")
    r = rng("C08", seed())
    ev, vd = run.ev, run.vd
    ev.rule = ("D = documents accepted with no diagnostics (random + matrix); D' = D + 1..3 bad pieces (array without items, dangling / remote / URL $ref, invalid defaults, mixed-type / boolean enum, bad union member, "
               "optional path parameter, duplicate parameters, unparseable body, bad status) at positions {new component, property of new model, items, union member, allOf parent, additionalProperties, property of an existing model, "
               "component with dependants at distance 1-3, parameter / response / body of a new operation}; oracle: diagnostic exists, files not owned by dependants byte-identical, models/__init__ only gains names, "
               "D' tree imports completely. distinct = distinct (position, bad piece, count) signatures")
    ev.assumptions = ["fresh names (Zq…) cannot collide with generated document names", "file ownership: manifest class -> module, inline classes by class-name prefix of their owner"]
    base_docs = []
    for i in range(70 if quick else 900):
        d, feats = docs.random_doc(("C08", seed(), i), n_schemas=r.randint(3, 9), n_ops=r.randint(1, 5))
        base_docs.append((f"random:{i}", d))
    for l, d in docs.matrix_docs()[:: (8 if quick else 2)]:
        base_docs.append((f"matrix:{l}", d))
    for l, d in docs.sharing_docs():
        base_docs.append((l, d))
        base_docs.append((l + ":b", d))
    bjobs = []
    for bi, (label, d) in enumerate(base_docs):
        j = run.job(d, want=["tree", "manifest"])
        j["name"] = f"pkg{bi}"
        bjobs.append(j)
    bres = run.map(bjobs, timeout=300)
    clean = {bi: res for bi, res in enumerate(bres) if not res.get("_error") and not res.get("exc") and res.get("accepted") and not res.get("diags")}
    ev.count("clean_bases", len(clean))
    positions = ["new_component", "new_model_property", "new_array_items", "new_union_member", "new_allof_parent", "new_additional", "existing_model_property", "depended_component", "depended_family", "existing_model_sharing_a_reference", "existing_model_sharing_a_reference",
                 "new_op_param", "new_op_response", "new_op_body", "new_op_optional_path", "new_op_duplicate_params", "new_op_unparseable_body", "new_op_bad_status",
                 "existing_op_extra_response", "new_op_inline_then_bad_response", "shadowed_path_item_param", "new_op_inline_bodies_then_bad_media",
                 "new_op_schemaless_body", "new_op_malformed_media", "new_op_undeclared_placeholder", "new_op_param_not_in_path", "new_op_schemaless_param"]
    jobs, info = [], {}
    per_base = 8 if quick else 30
    k = 0
    for bi in clean:
        label, d = base_docs[bi]
        for _ in range(per_base):
            k += 1
            cur, touched, touched_ops, descs = d, set(), set(), []
            for _ in range(r.choice([1, 1, 1, 2, 3])):
                pos = positions[(k + len(descs) * 7) % len(positions)] if r.random() < 0.7 else r.choice(positions)
                bad_key = r.choice(list(BAD_SCHEMAS))
                out = insert_bad(cur, r, pos, bad_key, k * 10 + len(descs))
                if out is None:
                    continue
                cur, t, to, desc = out
                touched |= t
                touched_ops |= to
                descs.append(desc)
            if not descs:
                continue
            j = run.job(cur, want=["tree"], sandbox=[{"a": "import_all"}])
            j["name"] = f"pkg{bi}"
            info[j["id"]] = (bi, touched, touched_ops, descs)
            jobs.append(j)
    rs = run.map(jobs, timeout=300)
    for j, res in zip(jobs, rs):
        bi, touched, touched_ops, descs = info[j["id"]]
        label, d = base_docs[bi]
        if res.get("_error"):
            continue
        w = {"base": d, "mutated": j["doc"], "inserted": descs}
        sig = tuple(sorted((x["position"], x["bad"]) for x in descs))
        if res.get("exc"):
            ev.count("generator_crashed(C06)")
            # the base document generates: a crash is caused by the inserted piece and takes everything else with it
            vd.violation(f"generator_crashed:{descs[0]['position'] if len(descs) == 1 else 'multi'}:{res['exc'].get('type')}", f"{label}: inserting {descs} crashes the generator: {res['exc'].get('type')}: {res['exc'].get('msg', '')[:120]} at {res['exc'].get('site')}", dict(w, exc=res["exc"]))
            continue
        ev.count("pairs_compared")
        for x_ in descs:
            ev.count("position:" + x_["position"])
        pos0 = descs[0]["position"] if len(descs) == 1 else "multi"
        if not res.get("diags") and not all(x["position"] == "shadowed_path_item_param" for x in descs):
            vd.violation(f"no_diagnostic:{pos0}:{descs[0]['bad'] if pos0.startswith(('new_', 'existing', 'depended')) and not pos0.startswith('new_op_') or pos0 in ('new_op_param', 'new_op_response', 'new_op_body') else 'op'}", f"{label}: bad piece {descs} produced no diagnostic", w)
        if not res.get("accepted"):
            vd.violation(f"whole_document_rejected:{pos0}", f"{label}: inserting {descs} made the generator reject the whole document: {[x['header'] for x in res.get('diags') or []][:2]}", w)
            continue
        dep, dep_ops = dependants(d, touched)
        dep_ops = (dep_ops if touched else set()) | touched_ops
        exempt, exempt_classes = owner_files(clean[bi]["manifest"], dep if touched else set(), dep_ops)
        bt, vt = clean[bi]["tree"], res.get("tree") or {}
        for rel, text in bt.items():
            if rel in exempt:
                continue
            if rel not in vt:
                vd.violation(f"unrelated_file_missing:{artefact_kind(rel)}:{pos0}", f"{label}: {rel} disappeared after inserting {descs}", dict(w, file=rel))
            elif vt[rel] != text:
                if rel == "models/__init__.py":
                    bl = set(text.splitlines())
                    lost = [x for x in bl if x not in set(vt[rel].splitlines()) and x.strip() and x.strip() not in (")", "__all__ = (") and not any(re.search(r"\b" + re.escape(c) + r"\b", x) for c in exempt_classes)]
                    if not lost:
                        continue
                    vd.violation(f"unrelated_file_changed:{artefact_kind(rel)}:{pos0}", f"{label}: {rel} lost lines {lost[:3]} after inserting {descs} (dependants: {sorted(dep)[:6]})", dict(w, file=rel))
                    continue
                vd.violation(f"unrelated_file_changed:{artefact_kind(rel)}:{pos0}", f"{label}: {rel} changed after inserting {descs}: {first_text_diff(text, vt[rel])}", dict(w, file=rel))
        ev.count("files_compared", len(bt))
        sb = res.get("sandbox") or {}
        if sb.get("results") and not sb["results"][0].get("action_exc"):
            im = sb["results"][0]
            ev.count("mutated_trees_imported")
            for e in im.get("syntax", []):
                vd.violation(f"remaining_tree_broken:syntax:{pos0}", f"{label}: {e['module']}: {e['msg']}: {e.get('text')}", w)
            for e in im.get("errors", []):
                if e["exc"]["type"] not in ("SyntaxError", "ModuleNotFoundError"):
                    vd.violation(f"remaining_tree_broken:import:{pos0}", f"{label}: {e['module']}: {e['exc']['type']}: {e['exc']['msg']}", w)
                elif e["exc"]["type"] == "ModuleNotFoundError" and f"pkg{bi}." in (e["exc"].get("msg") or ""):
                    # a generated module refers to a sibling module that was not written
                    vd.violation(f"remaining_tree_broken:missing_module:{pos0}", f"{label}: {e['module']}: {e['exc']['msg']}", w)
            from .c01 import removed_by_cascade
            removed = removed_by_cascade(res.get("diags") or [])
            for u in im.get("unresolved", []):
                if "SyntaxError" not in u["what"]:
                    mech = dangling_mechanism(u, vt, removed) or f":{pos0}"
                    vd.violation(f"remaining_tree_broken:dangling_name{mech}", f"{label}: {u['module']}:{u['line']}: {u['what']}", w)
        ev.seen(("C08", sig))
        if len(ev.samples) < 4 and res.get("diags"):
            ev.sample({"base": label, "inserted": descs, "diagnostics": [(x["header"].strip()[:70], (x["detail"] or "")[:90]) for x in res["diags"][:2]], "files_identical": len(bt) - len(exempt)})
    vd.inconclusive_if(ev.counters.get("pairs_compared", 0) < 150, "fewer than 150 (D, D') pairs compared")
    return run.finish()


if __name__ == "__main__":
    main_wrapper(main)
