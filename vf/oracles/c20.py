"""C20 — using a component by reference is equivalent to writing it inline (DESIGN.md section 8, C20).

(a) parameters / request bodies (incl. chains of body references) / responses: the same document with the component
    inline vs by $ref at any subset of use sites => byte-identical trees;
(b) schemas: an inline copy gives the same wire behaviour as the reference (decode/encode observations equal) and every
    reference to one schema shares one generated class (M-STRUCT manifest + sandbox type identity);
(c) dangling / remote / malformed / circular references in every component position => a diagnostic for the using item,
    everything else byte-identical.
"""
from __future__ import annotations

import copy
import json

from .. import docs, expect
from ..common import rng, seed, tier
from ..harness import Run, actions_results, artefact_kind, main_wrapper
from .c12 import first_text_diff, tree_diff


def componentize(doc: dict, r, p: float, chain: bool):
    """Move a random subset of inline parameters / request bodies / responses into components and refer to them."""
    d = copy.deepcopy(doc)
    comp = d.setdefault("components", {})
    n = {"parameters": 0, "requestBodies": 0, "responses": 0, "shared_use_sites": 0}
    k = 0
    seen_params = {}
    for path, item in d["paths"].items():
        holders = [item] + [item[m] for m in docs.METHODS if isinstance(item.get(m), dict)]
        for h in holders:
            ps = h.get("parameters")
            if isinstance(ps, list):
                for i, prm in enumerate(ps):
                    if isinstance(prm, dict) and "$ref" not in prm and r.random() < p:
                        sig = json.dumps(prm, sort_keys=True)
                        if sig in seen_params:
                            key = seen_params[sig]  # one reusable component referenced from several use sites
                            n["shared_use_sites"] += 1
                        else:
                            k += 1
                            key = f"Prm{k}"
                            seen_params[sig] = key
                            comp.setdefault("parameters", {})[key] = prm
                        ps[i] = {"$ref": f"#/components/parameters/{key}"}
                        n["parameters"] += 1
            b = h.get("requestBody")
            if isinstance(b, dict) and "$ref" not in b and r.random() < p:
                k += 1
                key = f"Body{k}"
                comp.setdefault("requestBodies", {})[key] = b
                ref = {"$ref": f"#/components/requestBodies/{key}"}
                if chain and r.random() < 0.5:
                    comp["requestBodies"][key + "Alias"] = ref
                    ref = {"$ref": f"#/components/requestBodies/{key}Alias"}
                h["requestBody"] = ref
                n["requestBodies"] += 1
            rs = h.get("responses")
            if isinstance(rs, dict) and h is not item:
                for st, resp in list(rs.items()):
                    if isinstance(resp, dict) and "$ref" not in resp and r.random() < p:
                        k += 1
                        key = f"Resp{k}"
                        comp.setdefault("responses", {})[key] = resp
                        rs[st] = {"$ref": f"#/components/responses/{key}"}
                        n["responses"] += 1
    return d, n


def inline_schema_copies(doc: dict, r, p: float):
    """Replace a random subset of property-level $refs to *leaf-ish* schemas (enums, scalars, arrays of scalars) by inline
    copies.  (Models are excluded: an inline copy of a model is by design a different class, compared behaviourally in (b).)"""
    d = copy.deepcopy(doc)
    comps = d["components"]["schemas"]
    n = [0]

    def fn(s, pos):
        if list(s) == ["$ref"] and pos in ("property", "items", "param") and r.random() < p:
            tgt = comps.get(s["$ref"].rsplit("/", 1)[-1])
            if isinstance(tgt, dict) and "enum" not in tgt and tgt.get("type") in ("string", "integer", "number", "boolean") and "default" not in tgt:
                n[0] += 1
                return {k: v for k, v in tgt.items() if k not in ("description", "title", "example")}
        return s
    from .. import rewrite
    return rewrite.map_schemas(d, fn), n[0]


BAD_REFS = {
    "param_dangling": lambda: ("parameters", [{"$ref": "#/components/parameters/NoSuchParamZq"}]),
    "param_remote": lambda: ("parameters", [{"$ref": "other.yaml#/components/parameters/X"}]),
    "param_wrong_section": lambda: ("parameters", [{"$ref": "#/components/schemas/N"}]),
    "body_dangling": lambda: ("requestBody", {"$ref": "#/components/requestBodies/NoSuchBodyZq"}),
    "body_remote_same_name": lambda: ("requestBody", {"$ref": "https://example.invalid/x.yaml#/components/requestBodies/ZqGoodBody"}),
    "body_wrong_section_same_name": lambda: ("requestBody", {"$ref": "#/components/schemas/ZqGoodBody"}),
    # the malformed reference is a later hop of a chain of request-body references; a local body of the same name exists
    "body_chain_remote_same_name": lambda: ("requestBody", {"$ref": "#/components/requestBodies/ZqChainRemote"}),
    "body_chain_wrong_section_same_name": lambda: ("requestBody", {"$ref": "#/components/requestBodies/ZqChainWrongSection"}),
    "body_chain_dangling": lambda: ("requestBody", {"$ref": "#/components/requestBodies/ZqChainDangling"}),
    "body_chain3_remote_same_name": lambda: ("requestBody", {"$ref": "#/components/requestBodies/ZqChain3"}),
    "body_chain_into_cycle": lambda: ("requestBody", {"$ref": "#/components/requestBodies/ZqIntoLoop"}),
    "body_circular": lambda: ("requestBody", {"$ref": "#/components/requestBodies/ZqLoopA"}),
    "response_dangling": lambda: ("responses", {"200": {"$ref": "#/components/responses/NoSuchRespZq"}}),
    "response_remote": lambda: ("responses", {"200": {"$ref": "https://example.invalid/x.yaml#/components/responses/ZqGoodResp"}}),
    "response_wrong_section": lambda: ("responses", {"200": {"$ref": "#/components/schemas/N"}}),
    "response_ref_to_ref": lambda: ("responses", {"200": {"$ref": "#/components/responses/ZqRespAlias"}}),
    "schema_remote_in_param": lambda: ("parameters", [{"name": "zq", "in": "query", "schema": {"$ref": "other.json#/components/schemas/X"}}]),
    "schema_malformed_ref": lambda: ("parameters", [{"name": "zq", "in": "query", "schema": {"$ref": "#components/schemas/X"}}]),
    "schema_empty_ref": lambda: ("parameters", [{"name": "zq", "in": "query", "schema": {"$ref": ""}}]),
}


def docs_snake(name: str) -> str:
    import re as _re
    return _re.sub(r"(?<=[a-z0-9])(?=[A-Z])", "_", name).lower()


def with_bad_ref(doc: dict, kind: str, n: int):
    d = copy.deepcopy(doc)
    comp = d.setdefault("components", {})
    comp.setdefault("requestBodies", {})["ZqGoodBody"] = {"content": {"application/json": {"schema": {"type": "string"}}}}
    comp["requestBodies"]["ZqLoopA"] = {"$ref": "#/components/requestBodies/ZqLoopB"}
    comp["requestBodies"]["ZqLoopB"] = {"$ref": "#/components/requestBodies/ZqLoopA"}
    comp["requestBodies"]["ZqChainRemote"] = {"$ref": "https://example.invalid/x.yaml#/components/requestBodies/ZqGoodBody"}
    comp["requestBodies"]["ZqChainWrongSection"] = {"$ref": "#/components/schemas/ZqGoodBody"}
    comp["requestBodies"]["ZqChainDangling"] = {"$ref": "#/components/requestBodies/NoSuchBodyZq"}
    comp["requestBodies"]["ZqChain3"] = {"$ref": "#/components/requestBodies/ZqChainRemote"}
    comp["requestBodies"]["ZqIntoLoop"] = {"$ref": "#/components/requestBodies/ZqLoopA"}
    comp.setdefault("responses", {})["ZqGoodResp"] = {"description": "good", "content": {"application/json": {"schema": {"type": "string"}}}}
    comp["responses"]["ZqRespAlias"] = {"$ref": "#/components/responses/ZqGoodResp"}
    base = copy.deepcopy(d)  # the same helper components, without the using operation
    field, value = BAD_REFS[kind]()
    op = {"operationId": f"zq_ref_op_{n}", "responses": {"200": {"description": "ok"}}}
    op[field] = value
    d["paths"][f"/zq-ref-{n}"] = {"post": op}
    return base, d


def main() -> int:
    quick = tier() == "quick"
    run = Run("C20")
    r = rng("C20", seed())
    ev, vd = run.ev, run.vd
    ev.rule = ("(a) random + matrix documents x componentisation of parameters (operation and path-item level), request bodies (with reference chains) and responses at p in {1.0, 0.5, 0.2} of use sites: trees byte-identical; "
               "scalar schema $ref vs inline copy at property/items/parameter positions: trees byte-identical; (b) all references to one schema share one class (manifest), decode behaviour of ref vs inline copy of a model equal; "
               "(c) 14 kinds of bad reference in parameter / body / response / schema positions: diagnostic exists and every other file byte-identical. distinct = distinct (clause, rewrite / bad-ref kind, base feature set) signatures")
    bases = []
    for i in range(60 if quick else 800):
        d, feats = docs.random_doc(("C20", seed(), i), n_ops=r.randint(2, 7))
        # path-item level parameters for some operations
        if i % 3 == 0:
            for path, item in d["paths"].items():
                for m in docs.METHODS:
                    if isinstance(item.get(m), dict) and item[m].get("parameters") and r.random() < 0.5:
                        ps = item[m]["parameters"]
                        moved = [p for p in ps if p.get("in") != "path" and r.random() < 0.5]
                        if moved and len([mm for mm in docs.METHODS if mm in item]) == 1:
                            item[m]["parameters"] = [p for p in ps if p not in moved]
                            item["parameters"] = moved
            feats = feats | {"pathitem_params"}
        bases.append((f"random:{i}", d, feats))
    for l, d in docs.matrix_docs()[:: (6 if quick else 1)]:
        bases.append((f"matrix:{l}", d, {"matrix", l}))
    for l, d in docs.sharing_docs():
        bases.append((l, d, {"sharing", l}))
    jobs, info = [], {}
    for bi, (label, d, feats) in enumerate(bases):
        def add(kind, doc, extra=None, **kw):
            j = run.job(doc, want=["tree", "manifest"], **kw)
            j["name"] = f"pkg{bi}"
            info[j["id"]] = (bi, kind, extra)
            jobs.append(j)
            return j
        add("base", d)
        for p in (1.0, 0.5, 0.2):
            v, n = componentize(d, r, p, chain=True)
            if sum(n.values()):
                add(f"componentize@{p}", v, n)
        v, n = inline_schema_copies(d, r, 1.0)
        if n:
            add("inline_scalar_schema", v, {"schemas": n})
        if bi % 2 == 0:
            kind = list(BAD_REFS)[(bi // 2) % len(BAD_REFS)]
            b2, v2 = with_bad_ref(d, kind, bi)
            add(f"badref_base:{kind}", b2)
            add(f"badref:{kind}", v2)
    # (b) behavioural equivalence: a model-typed property by reference vs an inline copy of that model
    bjobs, binfo = [], {}
    for bi, (label, d, feats) in enumerate(bases):
        comps = d["components"]["schemas"]
        cands = []
        for pname, ps in comps.items():
            if ps.get("type") != "object" or "allOf" in ps:
                continue
            for prop, sch in (ps.get("properties") or {}).items():
                if list(sch) == ["$ref"]:
                    tgt = sch["$ref"].rsplit("/", 1)[-1]
                    t = comps.get(tgt) or {}
                    if t.get("type") == "object" and "allOf" not in t and tgt != pname and f"/{pname}\"" not in json.dumps(t) and f"/{tgt}\"" not in json.dumps(t):
                        cands.append((pname, prop, tgt))
        if not cands:
            continue
        pname, prop, tgt = r.choice(cands)
        tok = docs.Tok(r)
        try:
            insts = [[l, v, f] for l, v, f in docs.object_instances(comps[pname], comps, tok, n_rand=4)][:14]
        except (docs.Bottomless, RecursionError):
            continue
        v = copy.deepcopy(d)
        v["components"]["schemas"][pname]["properties"][prop] = copy.deepcopy(comps[tgt])
        for kind, doc in (("ref", d), ("inline", v)):
            j = run.job(doc, want=[], plan={"fn": "models_given", "args": {"instances": {f"/components/schemas/{pname}": insts}}})
            binfo[j["id"]] = (bi, kind, pname, prop, tgt)
            bjobs.append(j)
    # (b') the same for every position a schema can stand in (property, array items, additional properties, union member) x targets whose decoding needs
    #      construction at a second level (maps of models / dates / enums / lists, a model with typed additional properties of its own)
    Rf = lambda n_: {"$ref": f"#/components/schemas/{n_}"}  # noqa: E731
    targets = {"map_of_models": {"type": "object", "additionalProperties": Rf("ZqItem")}, "map_of_dates": {"type": "object", "additionalProperties": {"type": "string", "format": "date"}},
               "map_of_enums": {"type": "object", "additionalProperties": Rf("ZqCode")}, "map_of_lists": {"type": "object", "additionalProperties": {"type": "array", "items": Rf("ZqItem")}},
               "map_of_unions": {"type": "object", "additionalProperties": {"oneOf": [Rf("ZqItem"), {"type": "string", "format": "date"}]}},
               "props_and_typed_addl": {"type": "object", "properties": {"k": {"type": "string"}}, "additionalProperties": Rf("ZqItem")},
               "plain": {"type": "object", "properties": {"k": {"type": "string"}, "d": {"type": "string", "format": "date"}}, "required": ["k"]},
               "closed": {"type": "object", "properties": {"k": {"type": "integer"}}, "additionalProperties": False}}
    positions = {"property": lambda t_: {"type": "object", "properties": {"p": t_, "other": {"type": "integer"}}},
                 "required_property": lambda t_: {"type": "object", "required": ["p"], "properties": {"p": t_}},
                 "items": lambda t_: {"type": "object", "properties": {"p": {"type": "array", "items": t_}}},
                 "additional": lambda t_: {"type": "object", "properties": {"fixed": {"type": "string"}}, "additionalProperties": t_},
                 "union_member": lambda t_: {"type": "object", "properties": {"p": {"oneOf": [t_, {"type": "integer"}]}}},
                 # composition: the holder is declared before its parent, whose name ends with the holder's name (BaseZqHolder / ZqHolder)
                 "allof_member": lambda t_: {"allOf": [t_, {"type": "object", "properties": {"own": {"type": "string"}}}]},
                 "allof_member_last": lambda t_: {"allOf": [{"type": "object", "properties": {"own": {"type": "string"}}, "required": ["own"]}, t_]}}
    pos_base = len(bases) + 1000
    for ti_, (tname, tsch) in enumerate(targets.items()):
        for pi_, (posname, mk_) in enumerate(positions.items()):
            if quick and (ti_ + pi_) % 2 and not (tname.startswith("map_of_models") or posname == "additional" or posname.startswith("allof_member")):
                continue
            for version in ("3.0.3",) if quick else ("3.0.3", "3.1.0"):
                helper = {"ZqItem": {"type": "object", "properties": {"sku": {"type": "string"}, "when": {"type": "string", "format": "date"}}, "required": ["sku"]}, "ZqCode": {"type": "string", "enum": ["c1", "c2"]}}
                dref = docs.base_doc(version, "Positions")
                dinl = docs.base_doc(version, "Positions")
                if posname.startswith("allof_member"):
                    if tname not in ("plain", "props_and_typed_addl", "closed"):
                        continue
                    dref["components"]["schemas"] = dict(helper, ZqHolder=mk_(Rf("BaseZqHolder")), BaseZqHolder=copy.deepcopy(tsch), ZqUser={"type": "object", "properties": {"h": Rf("ZqHolder")}})
                    dinl["components"]["schemas"] = dict(helper, ZqHolder=mk_(copy.deepcopy(tsch)), BaseZqHolder=copy.deepcopy(tsch), ZqUser={"type": "object", "properties": {"h": Rf("ZqHolder")}})
                else:
                    dref["components"]["schemas"] = dict(helper, ZqTarget=copy.deepcopy(tsch), ZqHolder=mk_(Rf("ZqTarget")))
                    dinl["components"]["schemas"] = dict(helper, ZqTarget=copy.deepcopy(tsch), ZqHolder=mk_(copy.deepcopy(tsch)))
                tok = docs.Tok(r)
                try:
                    insts = [[l, v_, f] for l, v_, f in docs.object_instances(dref["components"]["schemas"]["ZqHolder"], dref["components"]["schemas"], tok, n_rand=4)][:14]
                except (docs.Bottomless, RecursionError):
                    continue
                pos_base += 1
                for kind, doc in (("ref", dref), ("inline", dinl)):
                    j = run.job(doc, want=[], plan={"fn": "models_given", "args": {"instances": {"/components/schemas/ZqHolder": insts}}})
                    binfo[j["id"]] = (pos_base, kind, "ZqHolder", posname, tname)
                    bjobs.append(j)
    brs = run.map(bjobs, timeout=300)
    pair = {}
    for j, res in zip(bjobs, brs):
        bi, kind, pname, prop, tgt = binfo[j["id"]]
        pair.setdefault(bi, {})[kind] = (j, res)
    for bi, pr in pair.items():
        if "ref" not in pr or "inline" not in pr:
            continue
        (ja, ra), (jb, rb) = pr["ref"], pr["inline"]
        if any(x.get("_error") or x.get("exc") or x.get("plan_error") or (x.get("sandbox") or {}).get("_error") for x in (ra, rb)):
            continue
        A, B = actions_results(ra), actions_results(rb)
        _, _, pname, prop, tgt = binfo[ja["id"]]
        if len(A) != len(B) and len(B) < len(A) and any("duplicate models with name" in ((x.get("detail") or "") + (x.get("header") or "")) for x in (rb.get("diags") or [])):
            # the inline copy derives a class name of its own (<Owner><Property>) that another schema of the document already holds: diagnosed, not an inequivalence
            ev.count("inline_copy_class_name_taken")
            continue
        if len(A) != len(B):
            # the model exists on one side only: by reference it was diagnosed / removed, inline it was generated (or the other way round)
            vd.violation("ref_vs_inline_generated_differs", f"{bases[bi][0] if bi < len(bases) else 'positions'}: {pname}.{prop} -> {tgt}: {len(A)} usable instances by reference, {len(B)} with the inline copy; diagnostics {[x['detail'][:100] for x in (ra.get('diags') or [])][:1]} vs {[x['detail'][:100] for x in (rb.get('diags') or [])][:1]}",
                         {"ref_doc": ja["doc"], "inline_doc": jb["doc"]})
            continue
        if not A:
            ev.count("behaviour_pairs_unusable")
            continue
        for (aa, xa), (ab, xb) in zip(A, B):
            ev.count("behaviour_roundtrips_compared")
            oa = ("exc", xa["exc"]["type"]) if xa.get("exc") else ("ok", json.dumps(xa.get("e"), sort_keys=True))
            ob = ("exc", xb["exc"]["type"]) if xb.get("exc") else ("ok", json.dumps(xb.get("e"), sort_keys=True))
            if oa != ob:
                fl = aa["x"].get("flags") or []
                from ._ops import one_flag
                vd.violation("ref_vs_inline_behaviour_differs" + (":" + one_flag(fl) if fl else ""), f"{bases[bi][0] if bi < len(bases) else 'positions'}: {pname}.{prop} -> {tgt}: by reference {oa[1][:120]} vs inline copy {ob[1][:120]}", {"ref_doc": ja["doc"], "inline_doc": jb["doc"], "value": aa["value"]})
        ev.seen(("C20b", tuple(sorted(bases[bi][2]))[:8]) if bi < len(bases) else ("C20b'", prop, tgt))
    # (c') a dangling / remote reference inside a model that shares a referenced schema with other models: only that
    #      model and its dependants may change
    from .c08 import dependants, insert_bad, owner_files
    cjobs, cinfo = [], {}
    for bi, (label, d, feats) in enumerate(bases):
        if not (label.startswith("sharing") or bi % 5 == 0):
            continue
        for bad_key in ("dangling_ref", "remote_ref", "url_ref"):
            out = insert_bad(d, r, "existing_model_sharing_a_reference", bad_key, bi * 10)
            if out is None:
                continue
            d2, touched, _, desc = out
            j0 = run.job(d, want=["tree", "manifest"])
            j1 = run.job(d2, want=["tree"])
            j0["name"] = j1["name"] = f"pkg{bi}"
            cinfo[j1["id"]] = (bi, j0["id"], touched, bad_key)
            cjobs += [j0, j1]
    cres = dict(zip([j["id"] for j in cjobs], run.map(cjobs, timeout=300)))
    for j in cjobs:
        if j["id"] not in cinfo:
            continue
        bi, base_id, touched, bad_key = cinfo[j["id"]]
        b0, b1 = cres[base_id], cres[j["id"]]
        if any(x.get("_error") or x.get("exc") or not x.get("accepted") for x in (b0, b1)) or b0.get("diags"):
            continue
        ev.count("shared_model_badref_pairs")
        dep, dep_ops = dependants(bases[bi][1], touched)
        exempt, exempt_classes = owner_files(b0["manifest"], dep, dep_ops)
        w = {"base": bases[bi][1], "variant": j["doc"], "kind": f"shared_model:{bad_key}", "touched": sorted(touched)}
        if not b1.get("diags"):
            vd.violation(f"no_diagnostic:schema_{bad_key}", f"{bases[bi][0]}: a {bad_key} inside model {sorted(touched)} produced no diagnostic", w)
        for rel, text in b0["tree"].items():
            if rel in exempt or rel == "models/__init__.py":
                continue
            if b1["tree"].get(rel) != text:
                vd.violation(f"unrelated_changed:schema_{bad_key}:{artefact_kind(rel)}", f"{bases[bi][0]}: {rel} {'disappeared' if rel not in b1['tree'] else 'changed'} although it does not depend on {sorted(touched)} (dependants: {sorted(dep)[:6]})", dict(w, file=rel))
                break
        ev.seen(("C20c2", bad_key, tuple(sorted(bases[bi][2]))[:6]))
    # (c'') a schema that fails because of a bad reference, with one dependant per schema position: every dependant goes
    #       (with a diagnostic) or stays importable; files of the base document are unaffected
    from ..harness import dangling_mechanism
    from .c01 import removed_by_cascade
    djobs, dinfo = [], {}
    R_ = lambda n_: {"$ref": f"#/components/schemas/{n_}"}  # noqa: E731
    for bi, (label, d, feats) in enumerate(bases):
        if bi % (3 if quick else 1):
            continue
        for bad_key, badref in (("dangling_ref", "#/components/schemas/NoSuchThingZq"), ("remote_ref", "other.yaml#/components/schemas/Remote"), ("url_ref", "https://example.invalid/api.json#/components/schemas/Remote")):
            if (bi + len(bad_key)) % 2 and quick:
                continue
            d2 = copy.deepcopy(d)
            c2 = d2["components"]["schemas"]
            late = r.random() < 0.6
            # half of the families use schema names that only become identifiers with the field prefix (leading digit)
            PX_ = "3" if (bi + len(bad_key)) % 4 < 2 else ""
            W_ = PX_ + "ZqW"
            c2[W_] = {"type": "object", "properties": {"fine": {"type": "string"}, "zq_late": {"$ref": badref}}} if late else {"$ref": badref}
            fam = {
                PX_ + "ZqViaProp": {"type": "object", "properties": {"p": R_(W_)}},
                PX_ + "ZqViaItems": {"type": "object", "properties": {"l": {"type": "array", "items": R_(W_)}}},
                PX_ + "ZqViaAddl": {"type": "object", "additionalProperties": R_(W_)},
                PX_ + "ZqViaAllOf": {"allOf": [R_(W_), {"type": "object", "properties": {"own": {"type": "integer"}}}]},
                PX_ + "ZqViaUnion": {"type": "object", "properties": {"u": {"oneOf": [R_(W_), {"type": "integer"}]}}},
                PX_ + "ZqViaNullable": {"type": "object", "properties": {"n": {"oneOf": [R_(W_), {"type": "null"}]} if str(d.get("openapi", "")).startswith("3.1") else {"allOf": [R_(W_)], "nullable": True}}},
                PX_ + "ZqSecond": {"type": "object", "properties": {"via": R_(PX_ + "ZqViaAddl"), "via2": {"type": "array", "items": R_(PX_ + "ZqViaItems")}}},
            }
            ks = list(fam)
            r.shuffle(ks)
            if r.random() < 0.5:
                c2[W_] = c2.pop(W_)  # the failing schema declared before its users ...
            for k_ in ks:
                c2[k_] = fam[k_]
            if r.random() < 0.5:
                c2[W_] = c2.pop(W_)  # ... or after them
            okj = lambda sch: {"description": "ok", "content": {"application/json": {"schema": sch}}}  # noqa: E731
            d2["paths"]["/zq-dep-body"] = {"post": {"operationId": "zq_dep_body", "requestBody": {"content": {"application/json": {"schema": R_(W_)}}}, "responses": {"200": {"description": "ok"}}}}
            d2["paths"]["/zq-dep-resp"] = {"get": {"operationId": "zq_dep_resp", "responses": {"200": okj({"type": "array", "items": R_(PX_ + "ZqViaProp")})}}}
            d2["paths"]["/zq-dep-addl"] = {"get": {"operationId": "zq_dep_addl", "responses": {"200": okj(R_(PX_ + "ZqViaAddl"))}}}
            j0 = run.job(d, want=["tree"])
            j1 = run.job(d2, want=["tree"], sandbox=[{"a": "import_all"}])
            j0["name"] = j1["name"] = f"pkg{bi}"
            dinfo[j1["id"]] = (bi, j0["id"], bad_key, late)
            djobs += [j0, j1]
    dres = dict(zip([j["id"] for j in djobs], run.map(djobs, timeout=300)))
    for j in djobs:
        if j["id"] not in dinfo:
            continue
        bi, base_id, bad_key, late = dinfo[j["id"]]
        b0, b1 = dres[base_id], dres[j["id"]]
        if not (b0.get("_error") or b0.get("exc") or not b0.get("accepted") or b0.get("diags")) and not b1.get("_error") and (b1.get("exc") or not b1.get("accepted")):
            vd.violation(f"bad_reference_stops_generation:schema_{bad_key}", f"{bases[bi][0]}: a schema with a {bad_key} and its dependants make the generator {'crash: ' + str((b1.get('exc') or {}).get('type')) if b1.get('exc') else 'reject the whole document'}",
                         {"base": bases[bi][1], "variant": j["doc"], "exc": b1.get("exc")})
            continue
        if any(x.get("_error") or x.get("exc") or not x.get("accepted") for x in (b0, b1)) or b0.get("diags"):
            continue
        ev.count("dependant_family_pairs")
        w = {"base": bases[bi][1], "variant": j["doc"], "kind": f"dependants:{bad_key}:{'late' if late else 'direct'}"}
        if not b1.get("diags"):
            vd.violation(f"no_diagnostic:schema_{bad_key}", f"{bases[bi][0]}: a schema with a {bad_key} and eight dependants produced no diagnostic", w)
        for rel, text in b0["tree"].items():
            if rel in ("models/__init__.py",) or artefact_kind(rel) == "api_init":
                continue
            if b1["tree"].get(rel) != text:
                vd.violation(f"unrelated_changed:schema_{bad_key}:{artefact_kind(rel)}", f"{bases[bi][0]}: {rel} {'disappeared' if rel not in b1['tree'] else 'changed'} after adding a failing schema with its own dependants", dict(w, file=rel))
                break
        sb = (b1.get("sandbox") or {}).get("results") or []
        if sb and not sb[0].get("action_exc"):
            im = sb[0]
            ev.count("dependant_family_trees_imported")
            removed = removed_by_cascade(b1.get("diags") or [])
            for e in im.get("errors", []):
                if e["exc"]["type"] not in ("SyntaxError", "ModuleNotFoundError", "ImportError"):
                    vd.violation("dependant_kept_broken:import_error", f"{bases[bi][0]}: {e['module']}: {e['exc']['type']}: {e['exc']['msg'][:200]}", w)
                elif e["exc"]["type"] in ("ModuleNotFoundError", "ImportError") and e["module"].split(".")[0] + "." in (e["exc"].get("msg") or ""):
                    vd.violation("dependant_kept_broken:missing_module", f"{bases[bi][0]}: {e['module']}: {e['exc']['msg'][:200]} (a generated module refers to a sibling that was not written)", w)
            for u in im.get("unresolved", []):
                if "Zq" not in json.dumps(u):
                    continue
                mech = dangling_mechanism(u, b1["tree"], removed)
                pos = next((k_ for k_ in ("ZqViaProp", "ZqViaItems", "ZqViaAddl", "ZqViaAllOf", "ZqViaUnion", "ZqViaNullable", "ZqSecond", "zq_dep_body", "zq_dep_resp", "zq_dep_addl") if docs_snake(k_) in u["module"]), "other")
                vd.violation("dependant_kept_dangling" + (mech or f":{pos}"), f"{bases[bi][0]}: {u['module']}:{u['line']}: {u['what']} (dependant kept although the schema it refers to was removed)", w)
        ev.seen(("C20c3", bad_key, late, tuple(sorted(bases[bi][2]))[:6]))
    rs = run.map(jobs, timeout=300)
    by = {}
    for j, res in zip(jobs, rs):
        bi, kind, extra = info[j["id"]]
        by[(bi, kind)] = (j, res)
    for (bi, kind), (j, res) in by.items():
        label, d, feats = bases[bi]
        if res.get("_error") or res.get("exc"):
            continue
        if kind == "base":
            # (b) one class per referenced schema
            man = res.get("manifest") or {}
            seen_cls = {}
            def walk(pi, where):
                if pi.get("cls") and pi["kind"] in ("ModelProperty", "EnumProperty", "LiteralEnumProperty"):
                    seen_cls.setdefault(pi["cls"], set()).add(pi.get("module"))
                for sub in ([pi["inner"]] if "inner" in pi else []) + (pi.get("inners") or []):
                    walk(sub, where)
            for cname, m in (man.get("models") or {}).items():
                for pi in m["props"]:
                    walk(pi, cname)
            for cls, mods in seen_cls.items():
                ev.count("class_uses_checked")
                if len(mods) > 1:
                    vd.violation("one_schema_two_classes", f"{label}: class {cls} is used from modules {mods}", {"doc": d})
            refs = {}
            for ref, ent in (man.get("refs") or {}).items():
                if ent.get("cls"):
                    refs.setdefault(ent["cls"], []).append(ref)
            continue
        if kind.startswith("badref_base"):
            continue
        if kind.startswith("badref:"):
            bk = kind.split(":", 1)[1]
            bj, bres = by.get((bi, "badref_base:" + bk), (None, None))
            if not bres or bres.get("_error") or bres.get("exc"):
                continue
            ev.count("badref_pairs")
            w = {"base": bj["doc"], "variant": j["doc"], "kind": kind}
            extra_diags = len(res.get("diags") or []) - len(bres.get("diags") or [])
            if extra_diags <= 0:
                vd.violation(f"no_diagnostic:{bk}", f"{label}: an operation using a {bk} reference produced no diagnostic", w)
            if not res.get("accepted"):
                vd.violation(f"whole_document_rejected:{bk}", f"{label}: {bk} made the generator reject the whole document", w)
                continue
            for dk, rel in tree_diff(bres["tree"], res["tree"]):
                if f"zq_ref_op_{bi}" in rel:
                    if extra_diags <= 0:
                        ev.count("badref_op_generated")
                    continue
                if artefact_kind(rel) == "api_init" and rel not in bres["tree"]:
                    continue  # an (empty) tag package created for the operation that failed
                vd.violation(f"unrelated_changed:{bk}:{artefact_kind(rel)}", f"{label}: {rel} ({dk}) differs after adding an operation with a {bk} reference: {first_text_diff(bres['tree'].get(rel), res['tree'].get(rel))}", dict(w, file=rel))
            ev.seen(("C20c", bk, tuple(sorted(feats))[:8]))
            continue
        bj, bres = by.get((bi, "base"), (None, None))
        if not bres or bres.get("_error") or bres.get("exc"):
            continue
        ev.count("equivalence_pairs")
        k0 = kind.split("@")[0]
        w = {"base": d, "variant": j["doc"], "kind": kind, "rewritten": info[j["id"]][2]}
        db = sorted((x["level"], x["header"], x["detail"] or "") for x in (bres.get("diags") or []))
        dv = sorted((x["level"], x["header"], x["detail"] or "") for x in (res.get("diags") or []))
        if len(db) != len(dv):
            vd.violation(f"{k0}:diagnostics_differ", f"{label}: {len(db)} vs {len(dv)} diagnostics: {[x for x in dv if x not in db][:1] or [x for x in db if x not in dv][:1]}", w)
            continue
        for dk, rel in tree_diff(bres["tree"], res["tree"])[:2]:
            vd.violation(f"{k0}:{artefact_kind(rel)}:{dk}", f"{label}: {rel} differs under {kind}: {first_text_diff(bres['tree'].get(rel), res['tree'].get(rel))}", dict(w, file=rel))
        ev.seen(("C20a", k0, tuple(sorted(feats))[:8]))
        if len(ev.samples) < 3:
            ev.sample({"base": label, "rewrite": kind, "rewritten": info[j["id"]][2], "files_equal": len(res["tree"])})
    vd.inconclusive_if(ev.counters.get("equivalence_pairs", 0) < 100 or ev.counters.get("badref_pairs", 0) < 20, "too few pairs compared")
    return run.finish()


if __name__ == "__main__":
    main_wrapper(main)
