"""C09 — derived names are valid identifiers and never merge silently (DESIGN.md section 8, C09).

M-STRUCT: every python_name / class name / module name / tag / enum member key handed to the templates is walked at the
quiescent point between parsing and rendering; O-AST / O-TREE: every path component and every generated file.  Refuted
by a name that is not a valid non-keyword identifier, or by a scope (a model's attributes, an operation's parameters,
the model classes and their modules, one tag's operation modules, tags) holding fewer distinct Python names than
distinct document names among the generated items without a diagnostic.
"""
from __future__ import annotations

import keyword
import re
import unicodedata

from .. import docs, names
from ..common import rng, seed, tier
from ..harness import Run, main_wrapper, tree_static_problems


def ident_ok(s: str) -> bool:
    return isinstance(s, str) and s.isidentifier() and not keyword.iskeyword(s)


def nfkc_stable(s: str) -> bool:
    return unicodedata.normalize("NFKC", s) == s


def name_doc(X: str, slot: str) -> dict | None:
    d = docs.base_doc("3.0.3", "Names API")
    S = d["components"]["schemas"]
    S["Plain"] = {"type": "object", "properties": {"a": {"type": "string"}}}
    op = {"operationId": "plain_op", "tags": ["plain"], "parameters": [{"name": "q", "in": "query", "schema": {"type": "string"}}], "responses": {"200": {"description": "ok", "content": {"application/json": {"schema": {"$ref": "#/components/schemas/Plain"}}}}}}
    d["paths"]["/p"] = {"get": op}
    if slot == "schema":
        if any(c in X for c in "/~#%") or X == "Plain":
            return None
        S[X] = {"type": "object", "properties": {"a": {"type": "string"}, "child": {"type": "object", "properties": {"z": {"type": "integer"}}}}}
        S["User"] = {"type": "object", "properties": {"ref": {"$ref": f"#/components/schemas/{X}"}}}
    elif slot == "property":
        S["Holder"] = {"type": "object", "properties": {X: {"type": "string"}, "other": {"type": "integer"}}}
    elif slot == "enum_prop":
        S["Holder"] = {"type": "object", "properties": {X: {"type": "string", "enum": ["u", "v"]}, "lst": {"type": "array", "items": {"type": "object", "properties": {X: {"type": "string"}}}}}}
    elif slot == "query":
        op["parameters"].append({"name": X, "in": "query", "schema": {"type": "string"}})
    elif slot == "header":
        if not X or not all(33 <= ord(ch) < 127 and ch not in ':"(),/;<=>?@[\\]{}' for ch in X):
            return None
        op["parameters"].append({"name": X, "in": "header", "schema": {"type": "string"}})
    elif slot == "operationId":
        op["operationId"] = X
    elif slot == "tag":
        op["tags"] = [X]
    elif slot == "enum_value":
        S["E"] = {"type": "string", "enum": ["plainvalue", X]}
    elif slot == "title":
        S["Holder"] = {"type": "object", "properties": {"inl": {"type": "object", "title": X, "properties": {"z": {"type": "string"}}}}}
    else:
        raise KeyError(slot)
    return d


SLOTS = ["schema", "property", "enum_prop", "query", "header", "operationId", "tag", "enum_value", "title"]


def collision_doc(group: list, scope: str) -> dict:
    d = docs.base_doc("3.0.3", "Collide API")
    S = d["components"]["schemas"]
    ok = {"200": {"description": "ok"}}
    if scope == "properties":
        S["Holder"] = {"type": "object", "properties": {n: {"type": "string"} for n in group}}
    elif scope == "params_same_location":
        d["paths"]["/p"] = {"get": {"operationId": "op", "parameters": [{"name": n, "in": "query", "schema": {"type": "string"}} for n in group], "responses": ok}}
    elif scope == "params_across_locations":
        locs = ["query", "cookie", "query", "cookie"]
        d["paths"]["/p"] = {"get": {"operationId": "op", "parameters": [{"name": n, "in": locs[i % 4], "schema": {"type": "string"}} for i, n in enumerate(group)], "responses": ok}}
    elif scope == "params_path_item_vs_operation":
        # the first name(s) on the path item, the rest on the operation: an operation-level parameter overrides a path-item one only when
        # name *and* location are equal, so all of them are parameters of the operation
        cut = max(1, len(group) // 2)
        d["paths"]["/p"] = {"parameters": [{"name": n, "in": "query", "schema": {"type": "string"}} for n in group[:cut]],
                            "get": {"operationId": "op", "parameters": [{"name": n, "in": "query", "schema": {"type": "string"}} for n in group[cut:]], "responses": ok},
                            "post": {"operationId": "op2", "responses": ok}}
    elif scope == "schemas":
        for n in group:
            S[n] = {"type": "object", "properties": {"a": {"type": "string"}}}
    elif scope == "enum_schemas":
        for n in group:
            S[n] = {"type": "string", "enum": ["x", "y"]}
    elif scope == "operation_ids":
        for i, n in enumerate(group):
            d["paths"][f"/p{i}"] = {"get": {"operationId": n, "tags": ["t"], "responses": ok}}
    elif scope == "tags":
        for i, n in enumerate(group):
            d["paths"][f"/p{i}"] = {"get": {"operationId": f"op_{i}", "tags": [n], "responses": ok}}
    elif scope == "enum_members":
        S["E"] = {"type": "string", "enum": list(group)}
        S["Holder"] = {"type": "object", "properties": {"e": {"$ref": "#/components/schemas/E"}}}
    elif scope == "allof_inherited_properties":
        # each colliding name comes from a different referenced allOf member (plus one inline member)
        members = []
        for i, n in enumerate(group):
            if i == len(group) - 1 and len(group) > 2:
                members.append({"type": "object", "properties": {n: {"type": "string"}}})
            else:
                S[f"Part{i}"] = {"type": "object", "properties": {n: {"type": "string"}}}
                members.append({"$ref": f"#/components/schemas/Part{i}"})
        S["Holder"] = {"allOf": members}
    elif scope == "allof_redeclared_properties":
        # all colliding names in one parent; a later member re-declares the first one with a narrower kind
        S["Base"] = {"type": "object", "properties": {n: {"type": "number"} for n in group}}
        S["Holder"] = {"allOf": [{"$ref": "#/components/schemas/Base"}, {"type": "object", "properties": {group[0]: {"type": "integer"}, "own": {"type": "string"}}}]}
    elif scope == "operation_ids_multi_tag":
        # with generate_all_tags: the clash happens in a tag that is not the first tag of the earlier operation
        for i, n in enumerate(group):
            d["paths"][f"/p{i}"] = {"get": {"operationId": n, "tags": [f"own{i}", "shared"] if i % 2 == 0 else ["shared"], "responses": ok}}
    elif scope == "operation_ids_multi_tag_shared_first":
        # the shared tag is never the last tag of an operation
        for i, n in enumerate(group):
            d["paths"][f"/p{i}"] = {"get": {"operationId": n, "tags": ["shared", f"own{i}"] if i % 3 != 2 else ["first", "shared", f"own{i}"], "responses": ok}}
    elif scope == "schema_vs_inline":
        S[group[0]] = {"type": "object", "properties": {"a": {"type": "string"}}}
        S["Holder"] = {"type": "object", "properties": {"x": {"type": "object", "title": group[1], "properties": {"b": {"type": "integer"}}}}}
    return d


def main() -> int:
    quick = tier() == "quick"
    run = Run("C09")
    r = rng("C09", seed())
    ev, vd = run.ev, run.vd
    ev.rule = ("names: sampled code points of every Unicode general category (+ all of Latin-1 in thorough, + the \\w-but-not-XID set) in leading / inner / trailing position, empty and delimiter-only strings, keywords, soft keywords, "
               "builtins and case variants, the fixed hostile list; each in 9 naming slots (schema key, property, enum-typed property, query / header parameter, operationId, tag, enum value, inline title); colliding sets of size 2-4 in 8 "
               "scopes; field_prefix in {field_, f, attr_, _}. Oracle: every name in the recorded manifest and every path component is a valid non-keyword identifier, stable under NFKC; per scope no silent merge. "
               "distinct = distinct (name or colliding set, slot / scope, prefix) cases that were generated")
    test_names = set(names.HOSTILE_FIXED) | set(keyword.kwlist) | set(keyword.softkwlist) | {"", " ", "-", "_", "__", "...", "- -", ".-_", "1", "123abc", "a" * 200}
    cps = names.codepoint_samples(r, per_category=2 if quick else 6)
    if not quick:
        cps += [chr(c) for c in range(0xA0, 0x100)]
    for ch in cps:
        test_names |= {ch + "name", "na" + ch + "me", "name" + ch, ch}
    bl = [b for b in dir(__import__("builtins")) if not b.startswith("_")]
    for b in (r.sample(bl, 25) if quick else bl):
        test_names |= {b, b.upper(), b.capitalize()}
    test_names = sorted(n for n in test_names if not any(c in n for c in "\"'\\\n\r\x00"))
    jobs, info = [], {}
    prefixes = ["field_"] if quick else ["field_", "f", "attr_", "_"]
    for ni, X in enumerate(test_names):
        for slot in SLOTS:
            if quick and (ni + SLOTS.index(slot)) % 3:
                continue
            d = name_doc(X, slot)
            if d is None:
                continue
            pre = prefixes[(ni + SLOTS.index(slot)) % len(prefixes)]
            j = run.job(d, want=["manifest", "tree"], cfg={"field_prefix": pre, "literal_enums": ni % 5 == 4})
            info[j["id"]] = ("name", X, slot, pre)
            jobs.append(j)
    scopes = ["properties", "params_same_location", "params_across_locations", "schemas", "enum_schemas", "operation_ids", "tags", "schema_vs_inline", "enum_members",
              "allof_inherited_properties", "allof_redeclared_properties", "operation_ids_multi_tag", "params_path_item_vs_operation", "operation_ids_multi_tag_shared_first"]
    ENUM_GROUPS = [["first", "VALUE_2", "3rd", "last"], ["value_1", "*", "all"], ["VALUE_0", "", "z"], ["a", "VALUE_3", "b", "4th"], ["a-b", "a_b"], ["a", "A"], ["x y", "x_y", "q"], ["VALUE_1", "a", "1"], ["Value 1", "9"], ["ok", "OK", "Ok"]]
    for k in range(120 if quick else 1800):
        size = r.choice([2, 2, 3, 4])
        group = names.colliding_set(r, size)
        if r.random() < 0.3:
            group = r.choice([["FooBAR", "FooBar"], ["get-thing", "get_thing"], ["a-b", "a_b"], ["Abc", "abc"], ["x1", "x_1", "X1"], ["user id", "user_id", "userId", "UserID"], ["class", "class_"], ["type", "Type", "TYPE"], ["_a", "a"], ["a.b", "a b"],
                              ["limit", "limit "], [" sort", "sort"], ["page\t", "page"], ["a", " a ", "a  "], ["x\u00a0", "x"], ["q", "q\u2003"]])
        scope = scopes[k % len(scopes)]
        if scope == "enum_members":
            group = ENUM_GROUPS[(k // len(scopes)) % len(ENUM_GROUPS)]
        if scope in ("schemas", "enum_schemas", "schema_vs_inline") and any(c in n for n in group for c in "/~#%"):
            continue
        j = run.job(collision_doc(group, scope), want=["manifest", "tree"], cfg={"field_prefix": prefixes[k % len(prefixes)], **({"generate_all_tags": True} if scope.startswith("operation_ids_multi_tag") else {})})
        info[j["id"]] = ("collide", tuple(group), scope, prefixes[k % len(prefixes)])
        jobs.append(j)
    # behavioural side of "never merge" for a model's attributes: a typed property next to siblings spelled like the names the templates derive
    # from it (suffixes / prefixes); every property carries its own token through decode and encode
    SUFFIXES = ["{}_data", "_{}", "{}_item", "{}_item_data", "{}_type_0", "{}_type_1", "{}_", "{}s", "_parse_{}", "{}_dict", "{}_json", "field_{}"]
    TYPED = {"date": ({"type": "string", "format": "date"}, "2020-01-02"), "datetime": ({"type": "string", "format": "date-time"}, "2020-01-02T03:04:05+00:00"), "uuid": ({"type": "string", "format": "uuid"}, "00000000-0000-4000-8000-0000000000aa"),
             "enum": ({"$ref": "#/components/schemas/Col"}, "g"), "model": ({"$ref": "#/components/schemas/Inner"}, {"k": "a"}), "list": ({"type": "array", "items": {"$ref": "#/components/schemas/Inner"}}, [{"k": "a"}, {"k": "b"}]),
             "dates": ({"type": "array", "items": {"type": "string", "format": "date"}}, ["2020-01-02"]), "union": ({"oneOf": [{"$ref": "#/components/schemas/Inner"}, {"type": "string", "format": "date"}]}, "2021-02-03"),
             "nullable": ({"type": "string", "format": "date", "nullable": True}, None)}
    bjobs = []
    for bi, base_name in enumerate(["when", "ownerRef"] if quick else ["when", "ownerRef", "x", "value", "Item9"]):
        for tk, (tsch, tval) in TYPED.items():
            for first in (True, False):
                sib = [sfx.format(base_name) for sfx in SUFFIXES]
                props = {n_: {"type": "string"} for n_ in sib}
                props = {**props, base_name: docs.clone(tsch)} if first else {base_name: docs.clone(tsch), **props}
                d = docs.base_doc("3.0.3", "Derived names API")
                d["components"]["schemas"] = {"Inner": {"type": "object", "properties": {"k": {"type": "string"}}}, "Col": {"type": "string", "enum": ["r", "g"]},
                                              "Holder": {"type": "object", "required": sib[::2], "properties": props}}
                full = {n_: f"tok-{i_}" for i_, n_ in enumerate(sib)}
                full[base_name] = tval
                inst = [["full", full, []], ["absent", {n_: f"t2-{i_}" for i_, n_ in enumerate(sib)}, []]]
                j = run.job(d, want=["manifest"], plan={"fn": "models_given", "args": {"instances": {"/components/schemas/Holder": inst}}})
                bjobs.append((j, base_name, tk, sib))
    for (j, base_name, tk, sib), res in zip(bjobs, run.map([b[0] for b in bjobs], timeout=300)):
        if res.get("_error") or (res.get("sandbox") or {}).get("_error") or res.get("exc"):
            continue
        from ..harness import actions_results
        from .. import expect
        w = {"doc": j["doc"], "base": base_name, "kind": tk}
        acts = actions_results(res)
        if not acts:
            if not res.get("diags"):
                vd.violation("dropped_without_diagnostic:properties", f"model with a {tk} property {base_name!r} and siblings {sib[:3]}... not generated, no diagnostic", w)
            continue
        for a, x in acts:
            ev.count("derived_sibling_roundtrips")
            if x.get("action_exc") or x.get("exc"):
                ex_ = x.get("action_exc") or x.get("exc")
                vd.violation(f"runtime_merge:attributes:{tk}:exception", f"Holder with a {tk} property {base_name!r} next to {sib}: {ex_.get('type')}: {str(ex_.get('msg'))[:120]}", w)
                continue
            if not expect.jeq(x.get("e"), a["value"]):
                changed = sorted(k_ for k_ in set(a["value"]) | set(x.get("e") or {}) if (x.get("e") or {}).get(k_) != a["value"].get(k_))
                pat = next((sfx for sfx in SUFFIXES if sfx.format(base_name) in changed), "base")
                vd.violation(f"runtime_merge:attributes:{tk}:{pat.replace('{}', 'N')}", f"Holder with a {tk} property {base_name!r}: values of {changed} do not survive decode + encode: {expect.jdiff(x.get('e'), a['value'])[:200]}", w)
        ev.seen(("C09", "derived_siblings", base_name, tk))
    # the same for an operation's parameters: an array-typed query parameter next to parameters (every location but the path) spelled like the
    # names the endpoint template derives from it; every argument arrives under its own name with its own value
    pjobs = []
    for base_name in (["day", "ownerRef"] if quick else ["day", "ownerRef", "x", "value"]):
        for items in ({"type": "string", "format": "date"}, {"type": "string", "enum": ["r", "g"]}, {"type": "integer"}):
            import re as _re
            sn = _re.sub(r"(?<=[a-z0-9])(?=[A-Z])", "_", base_name).lower()
            derived = [f"{sn}_item", f"{sn}_item_data", f"json_{sn}", f"{sn}_", f"_{sn}", f"{sn}s"]
            params = [{"name": base_name, "in": "query", "schema": {"type": "array", "items": items}}]
            for rot in (0,):
                pass
            for i_, dn in enumerate(derived):
                loc_ = ["header", "cookie", "query"][(i_ + len(pjobs)) % 3]  # one location per derived name (the same name in two locations is renamed per location)
                params.append({"name": (dn.replace("_", "-").strip("-").title() or dn) if loc_ == "header" else dn, "in": loc_, "schema": {"type": "string"}})
            d = docs.base_doc("3.0.3", "Derived parameter names API")
            d["paths"] = {"/p": {"get": {"operationId": "derived_params", "parameters": params, "responses": {"200": {"description": "ok"}}}}}
            j = run.job(d, want=["manifest"], plan={"fn": "ops", "args": {"seed": seed(), "calls_per_op": 2, "import": False}})
            pjobs.append((j, base_name, items))
    for (j, base_name, items), res in zip(pjobs, run.map([b[0] for b in pjobs], timeout=300)):
        if res.get("_error") or (res.get("sandbox") or {}).get("_error") or res.get("exc"):
            continue
        from ..harness import actions_results
        from .. import expect
        sn = _re.sub(r"(?<=[a-z0-9])(?=[A-Z])", "_", base_name).lower()
        for a, x in actions_results(res):
            if a["a"] != "call" or x.get("action_exc"):
                continue
            for variant, vr in x.items():
                reqs = (vr or {}).get("requests") or []
                if vr.get("exc") and not reqs:
                    vd.violation("runtime_merge:parameters:exception", f"operation with an array query parameter {base_name!r} next to parameters spelled like derived names: {variant} raised {vr['exc']['type']}: {vr['exc']['msg'][:120]}", {"doc": j["doc"], "args": a["args"]})
                    continue
                if len(reqs) != 1:
                    continue
                ev.count("derived_parameter_requests")
                for eff_, det in expect.check_request(reqs[0], a["x"]):
                    parts = eff_.split(":")
                    if parts[0] in ("missing", "extra") and len(parts) > 1 and parts[1] in ("query", "header", "cookie"):
                        m_ = _re.search(r"(?:query|header|cookie|parameter|entry) \(?'([^']+)'", det)
                        nm_ = (m_.group(1) if m_ else "").lower().replace("-", "_")
                        pat_ = next((p_ for p_, t_ in (("N_item_data", f"{sn}_item_data"), ("N_item", f"{sn}_item"), ("json_N", f"json_{sn}"), ("N_", f"{sn}_"), ("_N", f"_{sn}"), ("Ns", f"{sn}s")) if nm_ == t_), "other")
                        vd.violation(f"runtime_merge:parameters:{parts[1]}:{pat_}", f"array query parameter {base_name!r} ({items.get('format') or items.get('type')}) next to parameters spelled like derived names: {variant}: {det}", {"doc": j["doc"], "args": a["args"], "x": a["x"]})
        ev.seen(("C09", "derived_params", base_name, str(items)))
    # every fixed colliding group in every scope, deterministically (the random groups above only sample the product)
    FIXED_GROUPS = [["FooBAR", "FooBar"], ["get-thing", "get_thing"], ["a-b", "a_b"], ["Abc", "abc"], ["x1", "x_1", "X1"], ["user id", "user_id", "userId", "UserID"], ["class", "class_"], ["type", "Type", "TYPE"], ["_a", "a"], ["a.b", "a b"],
                    ["fooBar", "foo_bar"], ["startAt", "start_at", "StartAt"], ["limit", "limit "], [" sort", "sort"], ["page\t", "page"], ["a", " a ", "a  "], ["x\u00a0", "x"], ["q", "q\u2003"]]
    for gi, group in enumerate(FIXED_GROUPS):
        for si_, scope in enumerate(scopes):
            if scope == "enum_members" or (scope in ("schemas", "enum_schemas", "schema_vs_inline") and any(c in n for n in group for c in "/~#%")):
                continue
            if quick and scope not in ("properties", "allof_inherited_properties", "allof_redeclared_properties", "params_path_item_vs_operation") and (gi + si_) % 3:
                continue
            pre_ = prefixes[(gi + si_) % len(prefixes)]
            j = run.job(collision_doc(group, scope), want=["manifest", "tree"], cfg={"field_prefix": pre_, **({"generate_all_tags": True} if scope.startswith("operation_ids_multi_tag") else {})})
            info[j["id"]] = ("collide", tuple(group), scope, pre_)
            jobs.append(j)
    rs = run.map(jobs, timeout=300)
    for j, res in zip(jobs, rs):
        kind, X, slot, pre = info[j["id"]]
        if res.get("_error"):
            continue
        w = {"doc": j["doc"], "cfg": j.get("cfg"), "names": X, "slot": slot}
        if res.get("exc"):
            ev.count("generator_crashed(C06)")
            continue
        if not res.get("accepted"):
            ev.count("document_rejected")
            continue
        man = res.get("manifest") or {}
        tree = res.get("tree") or {}
        diag_text = " ".join((d.get("header") or "") + " " + (d.get("detail") or "") + " " + (d.get("data") or "") for d in res.get("diags") or [])
        ev.count("documents")
        ncls = "keyword" if isinstance(X, str) and (keyword.iskeyword(X) or X in keyword.softkwlist) else ("collide" if kind == "collide" else ("nonascii" if isinstance(X, str) and not X.isascii() else "ascii"))
        # ---- V1: every name in the manifest
        inventory = []
        for cname, m in (man.get("models") or {}).items():
            inventory += [("class", m["cls"]), ("module", m["module"])] + [("attribute", p["python_name"]) for p in m["props"]]
        for cname, e in (man.get("enums") or {}).items():
            inventory += [("class", e["cls"]), ("module", e["module"])]
            if isinstance(e.get("values"), dict):
                inventory += [("enum_member", k) for k in e["values"]]
        for e in man.get("endpoints") or []:
            inventory += [("tag", e["tag"]), ("module", e["module"])] + [("parameter", p["python_name"]) for loc in e["params"].values() for p in loc]
        prefix_lost_doc = False
        for what, nm in inventory:
            ev.count("names_walked")
            if not ident_ok(nm) and set(pre) <= {"_"} and what in ("class", "module") and (nm == "" or nm[0].isdigit()):
                # a name that needs the prefix (delimiters only, leading digit) under a field_prefix of underscores only: pascal / snake
                # casing strips the prefix again
                prefix_lost_doc = True
                vd.violation(f"prefix_lost:{what}:underscore_only_prefix", f"{what} name {nm!r} derived for {X!r} ({slot}) under field_prefix {pre!r}", w)
            elif not ident_ok(nm):
                vd.violation(f"invalid_identifier:{what}:{slot if kind == 'name' else 'collision_fallback'}", f"{what} name {nm!r} derived for {X!r} ({slot}) is not a valid non-keyword identifier", w)
            elif not nfkc_stable(nm):
                vd.violation(f"identifier_not_nfkc_stable:{what}", f"{what} name {nm!r} changes under NFKC normalisation (Python normalises identifiers, file names are not)", w)
        # ---- V2: path components + compile
        for rel in tree:
            if rel.endswith(".py"):
                for comp in rel[:-3].split("/"):
                    ev.count("path_components")
                    if not ident_ok(comp) and comp != "__init__":
                        vd.violation(f"invalid_identifier:path:{slot if kind == 'name' else 'collision_fallback'}", f"path component {comp!r} of {rel} is not importable", w)
        for eff, rel, msg, text in tree_static_problems(tree):
            if "unterminated string" in msg:
                ev.count("string_literal_broken_by_control_character(C05)")
                continue  # the derived identifier is fine; the wire-name *string literal* is broken: C05's newline class
            if set(pre) <= {"_"} and (prefix_lost_doc or re.search(r"^class( \d\w*)?( ?\(.*\))?:|^from \.+(\d\w*)?\.? import|^from \.+(models\.)?_+ import( \d\w*)?( |$)|import( \d\w*)?$|^(\d\w*) = ", (text or "").strip()) or re.search(r"models/(_|\d\w*)\.py", rel)):
                vd.violation("syntax_error:prefix_lost:underscore_only_prefix", f"{rel}: {msg}: {text}", w)
                continue
            vd.violation(f"syntax_error:{slot if kind == 'name' else 'collision:' + slot}", f"{rel}: {msg}: {text}", w)
        # ---- V3: merges per scope
        n_end_files = len([k for k in tree if re.fullmatch(r"api/[^/]+/[^/]+\.py", k) and not k.endswith("__init__.py")])
        n_endpoints = len({(e["tag"], e["module"]) for e in man.get("endpoints") or []})
        if n_end_files != len(man.get("endpoints") or []):
            vd.violation("merged:operation_modules", f"{len(man.get('endpoints') or [])} operations generated but {n_end_files} endpoint modules written (module names coincide: {sorted((e['tag'], e['module']) for e in man.get('endpoints') or [])[:4]})", w)
        mods = {}
        for cname, m in list((man.get("models") or {}).items()) + list((man.get("enums") or {}).items()):
            mods.setdefault(m["module"], []).append(cname)
        for mod, cl in mods.items():
            if len(cl) > 1:
                vd.violation("merged:class_modules", f"classes {cl} are all written to models/{mod}.py", w)
        if kind == "collide":
            group = list(X)
            if slot in ("properties", "allof_inherited_properties", "allof_redeclared_properties"):
                m = next((m for m in (man.get("models") or {}).values() if m["cls"] == "Holder"), None)
                if m is None:
                    if not any(g in diag_text for g in group) and "Holder" not in diag_text:
                        vd.violation("dropped_without_diagnostic:properties", f"model with properties {group} not generated, no diagnostic", w)
                else:
                    py = [p["python_name"] for p in m["props"]]
                    if len(set(py)) < len(group) or len(m["props"]) < len(group):
                        vd.violation("merged:attributes", f"properties {group} became attributes {py}", w)
            elif slot.startswith("params"):
                eps = man.get("endpoints") or []
                if not eps:
                    if not res.get("diags"):
                        vd.violation("dropped_without_diagnostic:params", f"operation with parameters {group} not generated, no diagnostic", w)
                else:
                    ep0 = next((e_ for e_ in eps if e_.get("name") == "op" or e_.get("module") == "op"), None)
                    if ep0 is None:
                        if "GET /p" not in diag_text:
                            vd.violation("dropped_without_diagnostic:params", f"operation with parameters {group} not generated, no diagnostic names it", w)
                        continue
                    py = [p["python_name"] for loc in ep0["params"].values() for p in loc]
                    if len(set(py)) < len(group) and not any(g in diag_text for g in group):
                        vd.violation("merged:parameters", f"parameters {group} became {py}", w)
                    ev.count("parameter_scopes_compared")
            elif slot in ("schemas", "enum_schemas"):
                refs = man.get("refs") or {}
                from urllib.parse import urlparse
                # the generator keys schemas by the URL fragment of their reference: urlparse drops tab / newline characters and surrounding blanks
                got = {g: refs.get(f"/components/schemas/{g}") or refs.get(urlparse(f"#/components/schemas/{g}").fragment) for g in group}
                frag = {g: urlparse(f"#/components/schemas/{g}").fragment for g in group}
                for fr in set(frag.values()):
                    same = [g for g in group if frag[g] == fr]
                    if len(same) > 1 and fr.rsplit("/", 1)[-1] not in diag_text:
                        # (component enums with equal values being mapped to one class silently is the listed mechanism merged:classes:enum_schemas)
                        vd.violation("merged:classes:enum_schemas" if slot == "enum_schemas" else f"merged:reference_paths:{slot}", f"schemas {same} share the reference path {fr!r} and no diagnostic names it", w)
                classes = [v["cls"] for fr, v in {frag[g]: got[g] for g in group}.items() if v and v.get("cls")]
                undiag = [g for g, v in got.items() if not v and g not in diag_text and urlparse(f"#/components/schemas/{g}").fragment.rsplit("/", 1)[-1] not in diag_text]
                if len(set(classes)) < len(classes):
                    vd.violation(f"merged:classes:{slot}", f"schemas {group} share classes {classes}", w)
                if undiag:
                    vd.violation(f"dropped_without_diagnostic:{slot}", f"schemas {undiag} of {group} produced neither a class nor a diagnostic naming them", w)
            elif slot in ("operation_ids_multi_tag", "operation_ids_multi_tag_shared_first"):
                ev.count("multi_tag_groups")
                shared = [e for e in man.get("endpoints") or [] if e["tag"] == "shared"]
                named = sum(1 for i in range(len(group)) if re.search(rf" /p{i}\b", diag_text))
                if len({e["module"] for e in shared}) < len(shared):
                    vd.violation("merged:operation_modules", f"operations {group} under tag 'shared' derive modules {[e['module'] for e in shared]}", w)
                if len(shared) + named < len(group):
                    vd.violation("dropped_without_diagnostic:operations", f"operations {group}: {len(shared)} generated under the shared tag, {named} diagnosed", w)
            elif slot == "operation_ids":
                if len(man.get("endpoints") or []) + sum(1 for i in range(len(group)) if re.search(rf" /p{i}\b", diag_text)) < len(group):
                    vd.violation("dropped_without_diagnostic:operations", f"operations {group}: {len(man.get('endpoints') or [])} generated, rest not diagnosed", w)
            elif slot == "enum_members":
                e = next((e for e in (man.get("enums") or {}).values() if e["cls"] == "E"), None)
                ev.count("enum_member_groups")
                if e is None:
                    if "E" not in diag_text and "/components/schemas/E" not in diag_text:
                        vd.violation("dropped_without_diagnostic:enum", f"enum with values {group} not generated, no diagnostic", w)
                elif isinstance(e.get("values"), dict) and len(e["values"]) < len(set(group)):
                    vd.violation("merged:enum_members", f"values {group} became members {e['values']}", w)
            elif slot == "tags":
                tags = {e["tag"] for e in man.get("endpoints") or []}
                ev.count("tag_groups")
                # distinct document tags mapping to one package is a merge of the scope 'tags'
                if len(tags) < len(group):
                    ev.count("tag_groups_sharing_a_package")  # tags themselves are not one of the statement's scopes; the operations inside are checked above
        ev.seen(("C09", kind, X if kind == "name" else tuple(X), slot, pre))
        ev.count("name_class:" + ncls)
        if len(ev.samples) < 4 and kind == "name" and ncls == "nonascii" and inventory:
            ev.sample({"name": X, "slot": slot, "derived": [n for _, n in inventory if n not in ("Plain", "plain", "a", "q", "plain_op")][:5]})
    vd.inconclusive_if(ev.counters.get("names_walked", 0) < 2000, "too few names walked")
    return run.finish()


if __name__ == "__main__":
    main_wrapper(main)
