"""Shared workload for the endpoint-level checks (C03 requests, C04 responses): documents + the `ops` plan."""
from __future__ import annotations

from .. import docs
from ..common import seed
from ..harness import Run


def ops_jobs(run: Run, prop: str, quick: bool, n_quick: int = 200, n_thorough: int = 4000, calls_per_op: int = 3):
    jobs, info = [], {}
    for label, d in docs.matrix_docs():
        j = run.job(d, want=["manifest"], plan={"fn": "ops", "args": {"seed": seed(), "calls_per_op": 3, "import": True}}, cfg={"literal_enums": label.startswith("3.1")})
        info[j["id"]] = {"label": "matrix:" + label, "cfg": {"literal_enums": label.startswith("3.1")}, "features": {label.split(":")[1]}, "deterministic_valid": True}
        jobs.append(j)
    for label, d in docs.sharing_docs():
        j = run.job(d, want=["manifest"], plan={"fn": "ops", "args": {"seed": seed(), "calls_per_op": 3, "import": True}}, cfg={})
        info[j["id"]] = {"label": label, "cfg": {}, "features": {"sharing", label}, "deterministic_valid": True}
        jobs.append(j)
    for label, d in docs.union_io_docs():
        # seven calls per operation: the documented ones walk through the union members of the response in turn
        j = run.job(d, want=["manifest"], plan={"fn": "ops", "args": {"seed": seed(), "calls_per_op": 7, "import": True, "undocumented_call": 6}}, cfg={"literal_enums": label.endswith("3.1.0")})
        info[j["id"]] = {"label": label, "cfg": {"literal_enums": label.endswith("3.1.0")}, "features": {"union_io", label}, "deterministic_valid": True}
        jobs.append(j)
    for label, d in docs.cross_tag_docs():
        for gat in (False, True):
            cfg = {"generate_all_tags": True} if gat else {}
            j = run.job(d, want=["manifest"], plan={"fn": "ops", "args": {"seed": seed(), "calls_per_op": 3, "import": True}}, cfg=cfg)
            info[j["id"]] = {"label": label + (":all_tags" if gat else ""), "cfg": cfg, "features": {"cross_tag", label}, "deterministic_valid": True}
            jobs.append(j)
    for label, d, ovr in docs.override_docs():
        cfg = {"content_type_overrides": ovr}
        j = run.job(d, want=["manifest"], plan={"fn": "ops", "args": {"seed": seed(), "calls_per_op": 6, "import": True, "overrides": ovr}}, cfg=cfg)
        info[j["id"]] = {"label": label, "cfg": cfg, "features": {"content_type_overrides", label}, "deterministic_valid": True}
        jobs.append(j)
    n = n_quick if quick else n_thorough
    for i in range(n):
        d, feats = docs.random_doc((prop, seed(), i), hostile=[0, 0, 0.3][i % 3], n_ops=None if i % 2 else 6)
        cfg = {"literal_enums": i % 5 == 4}
        j = run.job(d, want=["manifest"], plan={"fn": "ops", "args": {"seed": seed() * 100003 + i, "calls_per_op": calls_per_op, "import": True}}, cfg=cfg)
        info[j["id"]] = {"label": f"random:{i}", "cfg": cfg, "features": feats}
        jobs.append(j)
    return jobs, info


def usable(run: Run, r: dict) -> bool:
    if r.get("_error") or r.get("plan_error") or (r.get("sandbox") or {}).get("_error"):
        run.ev.count("case_unusable")
        if r.get("plan_error"):
            run.ev.extra.setdefault("plan_errors", []).append(r["plan_error"][:300])
        return False
    if r.get("exc") or not r.get("accepted"):
        run.ev.count("not_generated")
        return False
    return True


def body_class(x: dict) -> str:
    b = x.get("body")
    if not b:
        return "nobody"
    return f"{b['body_type']}:{b['prop_kind']}:{'multi' if b['n_bodies'] > 1 else 'single'}"


FLAG_PRIORITY = ["union_model_shadowed", "union_date_datetime", "union_with_any", "union_two_array_members"]


def one_flag(flags) -> str:
    """The generator-known trigger used for attribution (one per instance, by fixed priority: finite vocabulary)."""
    for f in FLAG_PRIORITY:
        if f in flags:
            return f
    return sorted(flags)[0] if flags else ""


def derived_local_capture(man: dict) -> str | None:
    """C18's finding observed in the wild: a model has a constructed-array property `x` and a sibling property whose
    python name is `x_item` / `x_item_data` (the loop variables the list template derives from `x`).  Returns the
    captured identifier pattern or None."""
    for m in (man.get("models") or {}).values():
        py = {p["python_name"]: p for p in m["props"]}
        for n, p in py.items():
            if p["kind"] == "ListProperty" or (p["kind"] == "UnionProperty" and any(i["kind"] == "ListProperty" for i in p.get("inners") or [])):
                for suffix in ("_item", "_item_data"):
                    if n + suffix in py:
                        return "list" + suffix
    return None


def typed_reference_wrapper(doc: dict) -> bool:
    """C10's finding as a document-level trigger: some schema has an explicit type that admits null beside a single-element
    allOf / oneOf / anyOf around a reference (the null is lost, so a null value reaches the referenced class's from_dict)."""
    found = [False]

    def walk(x):
        if isinstance(x, dict):
            t = x.get("type")
            if ((isinstance(t, str) and x.get("nullable")) or (isinstance(t, list) and "null" in t)) and any(isinstance(x.get(kw), list) and len(x[kw]) == 1 and isinstance(x[kw][0], dict) and "$ref" in x[kw][0] for kw in ("allOf", "oneOf", "anyOf")):
                found[0] = True
            for v in x.values():
                walk(v)
        elif isinstance(x, list):
            for v in x:
                walk(v)
    walk(doc.get("components") or {})
    walk(doc.get("paths") or {})
    return found[0]


def derived_local_capture_names(man: dict) -> set:
    """The python names of the sibling properties that the list template's loop variables replace (see derived_local_capture)."""
    out = set()
    for m in (man.get("models") or {}).values():
        py = {p["python_name"]: p for p in m["props"]}
        for n, p in py.items():
            if p["kind"] == "ListProperty" or (p["kind"] == "UnionProperty" and any(i["kind"] == "ListProperty" for i in p.get("inners") or [])):
                for suffix in ("_item", "_item_data"):
                    if n + suffix in py:
                        out.add(n + suffix)
    return out


def caseless_class_equals_module(man: dict) -> bool:
    """C03's finding as a document-level trigger: some model's class name equals its module name (names in a caseless
    script): from_dict's local named after the module makes the class name itself a local of the function."""
    return any(cls == m.get("module") for cls, m in (man.get("models") or {}).items())


def endpoint_local_capture(man: dict) -> bool:
    """The parameter flavour of C18's finding: an array parameter x and a sibling whose python name is x_item /
    x_item_data / json_x (locals the endpoint template derives from x)."""
    for e in man.get("endpoints") or []:
        py = {p["python_name"]: p for loc in e["params"].values() for p in loc}
        for n, p in py.items():
            derived = ["json_" + n]
            if p["kind"] == "ListProperty" or (p["kind"] == "UnionProperty" and any(i["kind"] == "ListProperty" for i in p.get("inners") or [])):
                derived += [n + "_item", n + "_item_data"]
            if any(dn in py for dn in derived):
                return True
    return False


def import_defect(pairs) -> bool:
    """Did import_all (M-IMPORT) find modules of this package that do not import / resolve?  Then decode fall-through
    and missing-module exceptions inside it are consequences of C01's finding, not new violations."""
    for a, x in pairs:
        if a["a"] == "import_all" and not x.get("action_exc") and (x.get("unresolved") or x.get("errors") or x.get("syntax")):
            return True
    return False
