"""C06 — every failure is a diagnostic: the generator never crashes or hangs (DESIGN.md section 8, C06).

Fault enumeration: (a) byte strings offered as .json/.yaml/.yml/suffix-less files and through a loopback URL with
several content types; (b) JSON values offered as a whole document; (c) every node (JSON pointer) of base documents
(an IR-generated rich document, feature-matrix documents and the repository's own end-to-end documents) x every junk
value x replace/delete/duplicate, plus random pairs.  Monitors: M-DIAG (escaped exception + innermost repository frame),
M-STEP (CPU-time bound via ITIMER_VIRTUAL), CLI exit status vs diagnostics, output location after rejection.
"""
from __future__ import annotations

import base64
import copy
import json
import os
import re
from pathlib import Path

from .. import docs
from .. import docs as docs_mod
from ..common import REPO, rng, seed, tier
from ..harness import Run, main_wrapper

JUNK = [None, True, False, 0, -1, 1e999, 3.5, "", "x", [], [None], {}, {"$ref": "#/components/schemas/DoesNotExist"}, {"$ref": "other.yaml#/components/schemas/X"},
        {"$ref": "http://example.invalid/x.json#/components/schemas/X"}, {"$ref": "#"}, {"$ref": "#/components/schemas/__SELF__"}, {"$ref": 5},
        {"type": "array"}, {"type": "object", "properties": 5}, {"type": "string", "enum": ["a", "A"]}, {"type": "string", "enum": []}, {"type": "integer", "default": "inf"},
        {"type": "integer", "default": "nan"}, {"type": "number", "default": "nan"}, {"type": "integer", "default": 1e999}, {"type": ["string", "bogus"]}, {"allOf": [{"$ref": "#/components/schemas/__SELF__"}]},
        {"oneOf": []}, {"enum": [None]}, {"enum": [1, "a"]}, {"type": "string", "format": "uuid", "default": "nope"}, {"type": "string", "const": 5, "enum": ["x"], "default": []},
        "#/components/schemas/__SELF__", ["a", "a"], {"a": {"b": {"c": {}}}}, 2**70, -0.0, "\ud800" if False else "\u0000", {"in": "nowhere", "name": "x"}, {"200": 5}]


def pointers(node, path=()):
    """All JSON pointers (as tuples) of a document, parents before children."""
    yield path
    if isinstance(node, dict):
        for k, v in node.items():
            yield from pointers(v, path + (k,))
    elif isinstance(node, list):
        for i, v in enumerate(node):
            yield from pointers(v, path + (i,))


def mutate(doc, ptr, op, junk):
    """Returns a mutated deep copy, or None if not applicable."""
    if not ptr:
        return copy.deepcopy(junk) if op == "replace" else None
    d = copy.deepcopy(doc)
    parent = d
    for k in ptr[:-1]:
        parent = parent[k]
    last = ptr[-1]
    self_ref = "#/" + "/".join(str(p) for p in ptr[:3]) if len(ptr) >= 3 and ptr[0] == "components" else "#/components/schemas/Self"
    junk = json.loads(json.dumps(junk).replace("#/components/schemas/__SELF__", self_ref)) if junk == junk and not (isinstance(junk, float) and junk in (float("inf"),)) else junk
    if op == "replace":
        parent[last] = junk
    elif op == "delete":
        if isinstance(parent, dict):
            del parent[last]
        else:
            parent.pop(last)
    elif op == "duplicate":
        if isinstance(parent, list):
            parent.insert(last, copy.deepcopy(parent[last]))
        else:
            parent[str(last) + "_dup"] = copy.deepcopy(parent[last])
    return d


def byte_inputs():
    valid = json.dumps(docs.matrix_docs()[10][1]).encode()
    yamlish = b"openapi: 3.0.3\ninfo: {title: t, version: '1'}\npaths: {}\n"
    out = [b"", b" ", b"\n\n", b"{", b"}", b"[", b"null", b"5", b"true", b'"str"', b"[]", b"{}", b"[1,2]", b"\xff\xfe\x00", b"\x00" * 16, b"{\"a\": \xff}",
           b"a: b: c", b"- a\n- b", b"&a [*a]", b"a: &x {b: *x}", b"!!python/object/apply:os.system ['echo CNRY']", b"? - a\n: b", b"%YAML 9.9\n---\na", b"\t\tbad: tab",
           b"a: " + b"[" * 5000, b"[" * 100000, b"{\"a\":" * 20000, b"1e999", b"{\"openapi\": \"3.0.3\", \"openapi\": \"2.0\"}", b"openapi: 3.0.3\nopenapi: 3.1.0\n",
           b"a: &a [x, x]\nb: &b [*a, *a]\nc: &c [*b, *b]\nd: &d [*c, *c]\ne: &e [*d, *d]\nf: &f [*e, *e]\ng: [*f, *f]\n", b"swagger: '2.0'\ninfo: {}\n", b'{"swagger": "2.0"}',
           b'{"openapi": "3.0.3"}', b'{"openapi": "9.9.9", "info": {"title": "t", "version": "1"}, "paths": {}}', b'{"openapi": 3, "info": 1, "paths": 2}', yamlish, yamlish + b"components: 5\n",
           yamlish.replace(b"paths: {}", b"paths: {/a: 5}"), yamlish.replace(b"paths: {}", b"paths: {/a: {get: 5}}"), yamlish.replace(b"paths: {}", b"paths: {/a: {get: {responses: 5}}}"), "ünïcode: ✓".encode(), "openapi: 3.0.3\ninfo: {title: \" \", version: '1'}\npaths: {}\n".encode(),
           b"\xef\xbb\xbf" + valid, valid.decode().encode("utf-16"), valid.decode().encode("utf-32")]
    for i in range(1, 64):
        out.append(valid[: len(valid) * i // 64])
    return out


def base_documents(quick: bool):
    bases = []
    rich, _ = docs.random_doc(("C06base", 1), n_schemas=8, n_ops=5)
    bases.append(("ir:rich", rich))
    m = dict(docs.matrix_docs())
    for k in ("3.0.3:union_models", "3.1.0:array_union", "3.0.3:ref_allof"):
        bases.append(("matrix:" + k, m[k]))
    e2e = REPO / "end_to_end_tests"
    try:
        bases.append(("repo:baseline_openapi_3.0.json", json.loads((e2e / "baseline_openapi_3.0.json").read_text())))
        from ruamel.yaml import YAML
        y = YAML(typ="safe")
        for f in ("3.1_specific.openapi.yaml", "openapi_3.1_enums.yaml"):
            bases.append(("repo:" + f, y.load((e2e / f).read_text())))
        for f in sorted((e2e / "documents_with_errors").glob("*.yaml")):
            bases.append(("repo:" + f.name, y.load(f.read_text())))
    except Exception as ex:  # corpus is optional
        print("note: corpus unavailable:", ex)
    return bases


def ref_shape_docs():
    """Reference-graph shapes in every section that resolves references: self loops, cycles of length 2-3, rho shapes
    (a tail of 1-2 links leading into a cycle that does not contain the start), long chains, dangling tails."""
    out = []
    shapes = {"self": (0, 1), "cycle2": (0, 2), "cycle3": (0, 3), "rho_1_1": (1, 1), "rho_1_2": (1, 2), "rho_2_2": (2, 2), "rho_2_3": (2, 3), "rho_1_3": (1, 3), "chain40": (40, 0), "dangling_tail": (3, -1)}
    for shape, (tail, cyc) in shapes.items():
        n = tail + max(cyc, 0)
        names_ = [f"R{i}" for i in range(max(n, 1))]

        def target(i):
            if i + 1 < n:
                return names_[i + 1]
            if cyc > 0:
                return names_[tail]
            if cyc == 0:
                return "Leaf"
            return "NoSuchZq"
        for section in ("requestBodies", "responses", "parameters", "schemas_allOf", "schemas_property", "schemas_items", "schemas_oneOf", "schemas_additional"):
            d = docs.base_doc("3.0.3", "Ref shapes")
            comp = d["components"]
            op = {"operationId": "op", "responses": {"200": {"description": "ok"}}}
            if section == "requestBodies":
                comp["requestBodies"] = {nm: {"$ref": f"#/components/requestBodies/{target(i)}"} for i, nm in enumerate(names_)}
                comp["requestBodies"]["Leaf"] = {"content": {"application/json": {"schema": {"type": "string"}}}}
                op["requestBody"] = {"$ref": "#/components/requestBodies/R0"}
            elif section == "responses":
                comp["responses"] = {nm: {"$ref": f"#/components/responses/{target(i)}"} for i, nm in enumerate(names_)}
                comp["responses"]["Leaf"] = {"description": "leaf"}
                op["responses"]["200"] = {"$ref": "#/components/responses/R0"}
            elif section == "parameters":
                comp["parameters"] = {nm: {"$ref": f"#/components/parameters/{target(i)}"} for i, nm in enumerate(names_)}
                comp["parameters"]["Leaf"] = {"name": "p", "in": "query", "schema": {"type": "string"}}
                op["parameters"] = [{"$ref": "#/components/parameters/R0"}]
            else:
                kind = section.split("_", 1)[1]
                S = comp["schemas"]
                S["Leaf"] = {"type": "object", "properties": {"k": {"type": "string"}}}
                for i, nm in enumerate(names_):
                    ref = {"$ref": f"#/components/schemas/{target(i)}"}
                    S[nm] = {"allOf": [ref, {"type": "object", "properties": {f"p{i}": {"type": "string"}}}]} if kind == "allOf" else {"type": "object", "required": ["nxt"], "properties": {"nxt": ref}} if kind == "property" else \
                        {"type": "array", "items": ref} if kind == "items" else {"oneOf": [ref, {"type": "integer"}]} if kind == "oneOf" else {"type": "object", "additionalProperties": ref}
                op["responses"]["200"]["content"] = {"application/json": {"schema": {"$ref": "#/components/schemas/R0"}}}
            d["paths"]["/x"] = {"post": op}
            out.append((f"{shape}:{section}", d))
    return out


def expected_exit(diags, fail_on_warning):
    if any(d["level"] == "ERROR" for d in diags):
        return 1
    if diags and fail_on_warning:
        return 1
    return 0


def main() -> int:
    quick = tier() == "quick"
    run = Run("C06", level="fault_enumeration")
    r = rng("C06", seed())
    ev, vd = run.ev, run.vd
    ev.rule = ("faults: byte strings x {.json,.yaml,.yml,none, URL x content types}; JSON values as documents; every JSON pointer of each base document x 41 junk values x replace (+delete, duplicate per node) — "
               "exhaustive singly in the thorough tier, seeded sample in quick — plus random pairs; deciding events: exception escaping generate() (keyed by innermost repository frame), CPU-time bound, "
               "CLI exit status vs diagnostics, output directory after rejection. distinct = distinct (base, pointer-shape, junk class, op) fault signatures that reached the generator")
    ev.assumptions = ["missing / unreadable paths and invalid config files are CLI misuse, not documents", "termination is restated as a CPU-time bound of 60 s per generation (typical 0.1-0.5 s)"]
    jobs, meta = [], {}

    def add(label, sig, **kw):
        kw.setdefault("cpu_limit", 60)
        j = run.job(want=[], **kw)
        meta[j["id"]] = {"label": label, "sig": sig, "kw": {k: v for k, v in kw.items() if k not in ("doc",)} if "doc" not in kw or len(json.dumps(kw.get("doc"), default=str)) > 20000 else kw}
        jobs.append(j)
        return j

    # (a) bytes
    for i, b in enumerate(byte_inputs()):
        b64 = base64.b64encode(b).decode()
        for suffix in ([".json", ".yaml", ".yml", ""] if (len(b) < 20000 or i % 8 == 0) else [".json", ".yaml"]):
            add(f"bytes:{i}:{suffix}", ("bytes", i, suffix), raw_b64=b64, suffix=suffix)
            if i % 3 == 0:
                add(f"bytes-cli:{i}:{suffix}", ("bytes-cli", i, suffix), raw_b64=b64, suffix=suffix, via="cli", fail_on_warning=bool(i % 2))
        if len(b) < 20000:
            for ct in ("application/json", "application/yaml", "text/plain; charset=utf-8", None):
                add(f"bytes-url:{i}:{ct}", ("bytes-url", i, ct), raw_b64=b64, source="url", url_ctype=ct)
    # (a') a sample of the byte inputs through a real CLI subprocess (process boundary: exit status, stderr)
    for i, b in enumerate(byte_inputs()):
        if i % (6 if quick else 2) == 0 and len(b) < 20000:
            b64 = base64.b64encode(b).decode()
            add(f"bytes-proc:{i}", ("bytes-proc", i), raw_b64=b64, suffix=[".json", ".yaml"][i % 2], via="subprocess", fail_on_warning=bool(i % 4 == 0))
    # (b) JSON values as documents
    for i, v in enumerate([True, 0, 1.5, "s", [], [1], {}, {"openapi": None}, {"openapi": "3.0.3", "info": None, "paths": None}, {"openapi": "3.0.3", "info": {"title": "t", "version": "1"}, "paths": []},
                           {"openapi": "3.0.3", "info": {"title": "t", "version": "1"}, "paths": {}, "components": []}, {"openapi": "3.0.3", "info": {"title": "t", "version": "1"}, "paths": {}, "components": {"schemas": []}},
                           {"openapi": "3.0.3", "info": {"title": "", "version": ""}, "paths": {}}, {"openapi": "3.1.0", "info": {"title": " ", "version": "1"}, "paths": {"": {}}}]):
        for fmt in ("json", "yaml"):
            add(f"value:{i}:{fmt}", ("value", i, fmt), doc=v, fmt=fmt)
            add(f"value-cli:{i}:{fmt}", ("value-cli", i, fmt), doc=v, fmt=fmt, via="cli")
    # (c) node faults
    bases = base_documents(quick)
    budget = 2400 if quick else 10**9
    all_faults = []
    for bname, bdoc in bases:
        ptrs = list(pointers(bdoc))
        for ptr in ptrs:
            for ji, junk in enumerate(JUNK):
                all_faults.append((bname, ptr, "replace", ji))
            all_faults.append((bname, ptr, "delete", -1))
            all_faults.append((bname, ptr, "duplicate", -1))
    ev.extra["fault_space"] = len(all_faults)
    ev.extra["bases"] = [b for b, _ in bases]
    if len(all_faults) > budget:
        # stratified sample: every base, prefer shallow + schema-ish nodes, all junk values represented
        r.shuffle(all_faults)
        all_faults = all_faults[:budget]
        ev.extra["exhaustive"] = False
    else:
        ev.extra["exhaustive"] = True
    bd = dict(bases)
    for k, (bname, ptr, op, ji) in enumerate(all_faults):
        try:
            m = mutate(bd[bname], ptr, op, JUNK[ji] if ji >= 0 else None)
        except Exception:
            m = None
        if m is None:
            continue
        shape = tuple("#" if isinstance(p, int) else (p if p in ("components", "schemas", "paths", "properties", "items", "parameters", "responses", "requestBody", "content", "schema", "allOf", "oneOf", "anyOf", "required", "enum", "default", "type", "info", "openapi", "additionalProperties") else "*") for p in ptr)
        j = add(f"node:{bname}:{'/'.join(map(str, ptr))}:{op}:{ji}", ("node", bname.split(":")[0], shape, ji, op), doc=m, via="cli" if k % 10 == 0 else None, fail_on_warning=bool(k % 20 == 0))
        meta[j["id"]]["fault"] = {"base": bname, "pointer": list(ptr), "op": op, "junk": JUNK[ji] if ji >= 0 else None}
    # (d) reference-graph shapes
    for label, d in ref_shape_docs():
        j = add(f"refshape:{label}", ("refshape",) + tuple(label.split(":")), doc=d, cpu_limit=30)
        meta[j["id"]]["fault"] = {"ref_shape": label}
        j2 = add(f"refshape-cli:{label}", ("refshape-cli",) + tuple(label.split(":")), doc=d, via="cli", cpu_limit=30)
        meta[j2["id"]]["fault"] = {"ref_shape": label}
    # (e) well-formed documents whose *names* are hostile, in every naming slot (schema key, property, parameter names, operationId, tag, enum value, title),
    #     and documents whose pieces contradict each other by name (class-name clashes between models and inline enums), under both enum styles
    from .c09 import SLOTS as NAME_SLOTS, name_doc
    from .. import names as _names
    hostile_names = sorted(set(_names.HOSTILE_FIXED) | {"", " ", "-", "%", "{", "}", "{}", "%%", "%d", "$", "\\", "a\\b"})
    for ni, X in enumerate(hostile_names):
        for slot in NAME_SLOTS:
            if quick and (ni + NAME_SLOTS.index(slot)) % 2 and not any(c_ in X for c_ in "%{}$"):
                continue
            d = name_doc(X, slot)
            if d is None:
                continue
            le = (ni + NAME_SLOTS.index(slot)) % 4 == 0
            j = add(f"name:{slot}:{X!r}", ("name", slot, ni), doc=d, cfg={"literal_enums": le}, cpu_limit=30)
            meta[j["id"]]["fault"] = {"name": X, "slot": slot, "literal_enums": le}
    a_ = {"type": "object", "properties": {"code": {"type": "integer"}}}
    clash_sets = {
        "model_vs_inline_enum": [("OrderStatus", a_), ("Order", {"type": "object", "properties": {"status": {"type": "string", "enum": ["open", "closed"]}}})],
        "model_vs_inline_int_enum": [("InvoiceKind", a_), ("Invoice", {"type": "object", "properties": {"kind": {"type": "integer", "enum": [1, 2]}}})],
        "enum_vs_inline_model": [("PurchaseDetail", {"type": "string", "enum": ["x", "y"]}), ("Purchase", {"type": "object", "properties": {"detail": {"type": "object", "properties": {"why": {"type": "string"}}}}})],
        "enum_vs_inline_enum_other_values": [("TicketState", {"type": "string", "enum": ["a", "b"]}), ("Ticket", {"type": "object", "properties": {"state": {"type": "string", "enum": ["c", "d"]}}})],
        "enum_vs_inline_enum_other_type": [("TicketState", {"type": "integer", "enum": [1, 2]}), ("Ticket", {"type": "object", "properties": {"state": {"type": "string", "enum": ["c", "d"]}}})],
        "model_vs_model_case": [("FooBAR", a_), ("FooBar", a_)], "model_vs_union_member": [("PetType0", a_), ("Pet", {"oneOf": [{"type": "object", "properties": {"x": {"type": "string"}}}, {"type": "integer"}]})],
        "model_vs_array_item": [("BoxItemsItem", a_), ("Box", {"type": "object", "properties": {"items": {"type": "array", "items": {"type": "object", "properties": {"y": {"type": "string"}}}}}})],
        "model_vs_additional_property": [("BagAdditionalProperty", a_), ("Bag", {"type": "object", "additionalProperties": {"type": "object", "properties": {"z": {"type": "string"}}}})],
    }
    for cname, items in clash_sets.items():
        for order in (0, 1):
            for le in (False, True):
                d = docs_mod.base_doc("3.0.3", "Clash")
                for k_, v_ in (items if order == 0 else items[::-1]):
                    d["components"]["schemas"][k_] = json.loads(json.dumps(v_))
                d["paths"] = {"/c": {"get": {"operationId": "get_c", "responses": {"200": {"description": "ok", "content": {"application/json": {"schema": {"$ref": "#/components/schemas/" + items[1][0]}}}}}}}}
                j = add(f"clash:{cname}:{order}:{le}", ("clash", cname, order, le), doc=d, cfg={"literal_enums": le}, cpu_limit=30)
                meta[j["id"]]["fault"] = {"clash": cname, "order": order, "literal_enums": le}
    # (f) rarely used / 3.1-specific features under option sets, and malformed post-hook entries (configuration is input too: a diagnostic, never a traceback)
    for label, d in docs_mod.rare_feature_docs():
        for ci_, cfg_ in enumerate(({}, {"literal_enums": True, "generate_all_tags": True}, {"docstrings_on_attributes": True, "use_path_prefixes_for_title_model_names": False})):
            j = add(f"rare:{label}:{ci_}", ("rare", label, ci_), doc=d, cfg=cfg_, via="cli" if ci_ == 1 else None, cpu_limit=30)
            meta[j["id"]]["fault"] = {"rare": label, "cfg": cfg_}
    hook_doc = docs_mod.rare_feature_docs()[1][1]
    for hi_, hook in enumerate(["", " ", "\t", "echo it's generated", 'echo "unbalanced', "true; false", "nonexistent-command-zq --x", "  true  ", "exit 3", "'"]):
        for via_ in ("cli", "subprocess") if hi_ % 3 == 0 else ("cli",):
            j = add(f"hook:{hi_}:{via_}", ("hook", hi_, via_), doc=hook_doc, cfg={"post_hooks": [hook]}, via=via_, fail_on_warning=bool(hi_ % 2), cpu_limit=30)
            meta[j["id"]]["fault"] = {"post_hook": hook}
        j = add(f"hook-api:{hi_}", ("hook-api", hi_), doc=hook_doc, cfg={"post_hooks": [hook]}, cpu_limit=30)
        meta[j["id"]]["fault"] = {"post_hook": hook}
    # random pairs
    for k in range(150 if quick else 3000):
        bname, bdoc = bases[k % len(bases)]
        ptrs = list(pointers(bdoc))
        d = bdoc
        fs = []
        for _ in range(r.choice([2, 2, 3])):
            ptr = r.choice(list(pointers(d)))
            ji = r.randrange(len(JUNK))
            try:
                m = mutate(d, ptr, "replace", JUNK[ji])
            except Exception:
                m = None
            if m is not None and isinstance(m, (dict, list)):
                d = m
                fs.append({"pointer": list(ptr), "junk": JUNK[ji]})
        j = add(f"multi:{bname}:{k}", ("multi", bname.split(":")[0], len(fs), k % 50), doc=d)
        meta[j["id"]]["fault"] = {"base": bname, "faults": fs}
    ev.extra["faults_run"] = len(jobs)
    rs = run.map(jobs, timeout=400)
    cpu_max = 0.0
    for j, res in zip(jobs, rs):
        mi = meta[j["id"]]
        if res.get("_error"):
            if res["_error"] == "worker-exception":
                ev.extra.setdefault("worker_exceptions", []).append({"label": mi["label"], "detail": res.get("detail"), "tb": (res.get("tb") or "")[-400:]})
            if res["_error"] == "died":
                cls = "other"
                if "raw_b64" in j:
                    raw = base64.b64decode(j["raw_b64"])
                    depth = cur = 0
                    for ch in raw[:200000]:
                        if ch in b"[{":
                            cur += 1
                            depth = max(depth, cur)
                        elif ch in b"]}":
                            cur -= 1
                    if depth > 10000:
                        cls = "deep_nesting:" + ("json" if j.get("suffix") == ".json" or j.get("url_ctype") == "application/json" else "yaml")
                vd.violation(f"process_death:{cls}", f"generator process died on {mi['label']}: {res.get('stderr', '')[-300:]}", {"label": mi["label"], "fault": mi.get("fault"), "job": {k: v for k, v in j.items() if k != "doc"}})
            continue
        ev.count("generator_runs")
        cpu_max = max(cpu_max, res.get("cpu_s", 0))
        wit = {"label": mi["label"], "fault": mi.get("fault"), "job": {k: v for k, v in j.items() if k not in ("work",) and (k != "doc" or "fault" not in mi)}}
        if res.get("nonterminating"):
            site = re.findall(r'File "[^"]*/openapi_python_client/([^"]+)", line \d+, in (\w+)', res["nonterminating"]["stack"])
            vd.violation("nonterminating@" + (site[-1][0].replace("/", ".").replace(".py", "") + "." + site[-1][1] if site else "?"), f"{mi['label']}: CPU-time bound exceeded: {res['nonterminating']['stack'][-300:]}", wit)
            continue
        if res.get("exc"):
            x = res["exc"]
            vd.violation(f"crash:{x['type']}@{x['site']}", f"{mi['label']}: {x['type']}: {x['msg'][:160]}", wit)
            continue
        if j.get("via") == "subprocess":
            ev.count("real_cli_processes")
            if res.get("traceback"):
                vd.violation("traceback_on_stderr", f"{mi['label']}: the CLI process printed a traceback: {res.get('cli_stderr', '')[-300:]}", wit)
        if j.get("via") in ("cli", "subprocess"):
            ev.count("cli_runs")
            # the CLI prints diagnostics; the deciding relation is checked against the headline it printed
            err = res.get("cli_stderr", "") + res.get("cli_stdout", "")
            has_error = "Error(s) encountered while generating, client was not created" in err
            has_warning = "Warning(s) encountered while generating" in err
            exp = 1 if has_error or (has_warning and j.get("fail_on_warning")) else 0
            if res.get("cli_exit") not in (exp,):
                vd.violation(f"exit_code:{exp}->{res.get('cli_exit')}", f"{mi['label']}: exit status {res.get('cli_exit')} but headline says error={has_error} warning={has_warning} fail_on_warning={bool(j.get('fail_on_warning'))}: {err[-200:]}", wit)
            if has_error and res.get("out_exists") and "post_hook" not in (mi.get("fault") or {}):  # (a failing post-hook is reported after the client was written: the document was not rejected)
                vd.violation("output_written_on_rejection", f"{mi['label']}: output directory exists after the document was rejected", wit)
            if not has_error and not has_warning and res.get("cli_exit") == 0 and not res.get("out_exists"):
                vd.violation("nothing_written_on_success", f"{mi['label']}: exit 0 without diagnostics but no output directory", wit)
        else:
            diags = res.get("diags")
            if diags is None:
                continue
            ev.count("diagnostics", len(diags))
            if any(d["level"] == "ERROR" for d in diags):
                ev.count("rejected_documents")
                if res.get("out_exists") and "post_hook" not in (mi.get("fault") or {}):
                    vd.violation("output_written_on_rejection", f"{mi['label']}: output directory exists after an ERROR-level diagnostic: {[d['header'] for d in diags][:2]}", wit)
            else:
                ev.count("generated_with_or_without_warnings")
                if not res.get("out_exists"):
                    vd.violation("nothing_written_on_success", f"{mi['label']}: no ERROR diagnostic but no output directory", wit)
        ev.seen(("C06",) + tuple(map(str, mi["sig"])))
        if "fault" in mi and len(ev.samples) < 4 and res.get("diags"):
            ev.sample({"fault": mi["fault"], "diagnostics": [(d["level"], d["header"][:80], (d["detail"] or "")[:100]) for d in res["diags"][:2]]})
    ev.extra["max_cpu_s"] = cpu_max
    vd.inconclusive_if(ev.counters.get("generator_runs", 0) < 500, "fewer than 500 faults reached the generator")
    return run.finish()


if __name__ == "__main__":
    main_wrapper(main)
