"""C10 — absent, null and present stay three distinct states (DESIGN.md section 8, C10).

M-SIG: required & no default <=> constructor / function parameter without default; optional => default UNSET (or the
declared default); the annotation admits None <=> the schema is nullable; it admits Unset <=> the property is optional.
Behaviour: decoding an instance where the key is absent / null / present yields the attribute states UNSET / None /
value, and each re-encodes to exactly the input state (absent stays absent, null stays null).
"""
from __future__ import annotations

from .. import docs, expect
from ..common import seed, tier
from ..harness import Run, actions_results, main_wrapper
from ..plans import effective_params, find_op


def untyped(s, comps) -> bool:
    s = docs.resolve(s, comps)
    if s == {} or not any(k in s for k in ("type", "enum", "const", "oneOf", "anyOf", "allOf", "properties", "items", "$ref")):
        return True
    return any(untyped(m, comps) for k in ("oneOf", "anyOf") for m in s.get(k, []))


def main() -> int:
    quick = tier() == "quick"
    run = Run("C10")
    ev, vd = run.ev, run.vd
    ev.rule = ("every property of every generated component model and every parameter of every generated operation (feature matrix: 40 kinds x required/optional x nullable via 3.0 nullable, 3.1 type lists, null union members, "
               "null enum members; random documents) : signature / attrs defaults and annotations vs the schema's requiredness and nullability; decode of instances with the key absent / null / present and re-encode. "
               "distinct = distinct (kind features, required, nullable, has default, state) signatures")
    ev.assumptions = ["an enumeration is nullable iff null is listed among its values (Appendix B)", "untyped schemas ({}) admit everything and are skipped for the None-admission clause"]
    jobs, info = [], {}
    for label, d in docs.matrix_docs():
        for le in ((False, True) if not quick else (label.startswith("3.1"),)):
            j = run.job(d, want=["manifest"], plan={"fn": "c10", "args": {"seed": seed()}}, cfg={"literal_enums": le})
            info[j["id"]] = ("matrix:" + label, {label.split(":")[1]})
            jobs.append(j)
    for label, d in docs.sharing_docs():
        j = run.job(d, want=["manifest"], plan={"fn": "c10", "args": {"seed": seed()}}, cfg={"literal_enums": label.endswith(("1", "3"))})
        info[j["id"]] = (label, {"sharing"})
        jobs.append(j)
    for label, d in docs.shared_enum_param_docs():
        for le in (False, True):
            j = run.job(d, want=["manifest"], plan={"fn": "c10", "args": {"seed": seed()}}, cfg={"literal_enums": le})
            info[j["id"]] = (label, {"shared_enum_params", "le" if le else "enum"})
            jobs.append(j)
    for k_, (label, d) in enumerate(docs.interplay_docs()):
        if not d["components"]["schemas"] or (quick and k_ % 4 and "typed_nullable" not in label and "redeclared_required" not in label and "single_member_union" not in label) or any(x_ in label for x_ in ("named_Union", "named_Unset")):
            continue
        j = run.job(d, want=["manifest"], plan={"fn": "c10", "args": {"seed": seed()}}, cfg={"literal_enums": k_ % 2 == 0})
        info[j["id"]] = (label, {"interplay", label.split(":")[1].rsplit("_", 1)[0]})
        jobs.append(j)
    for i in range(120 if quick else 3000):
        d, feats = docs.random_doc(("C10", seed(), i))
        j = run.job(d, want=["manifest"], plan={"fn": "c10", "args": {"seed": seed() * 7919 + i}}, cfg={"literal_enums": i % 4 == 3})
        info[j["id"]] = (f"random:{i}", feats)
        jobs.append(j)
    rs = run.map(jobs, timeout=300)
    for j, res in zip(jobs, rs):
        label, feats = info[j["id"]]
        if res.get("_error") or (res.get("sandbox") or {}).get("_error") or res.get("plan_error") or res.get("exc") or not res.get("accepted"):
            ev.count("case_unusable")
            continue
        doc = j["doc"]
        comps = doc["components"]["schemas"]
        man = res["manifest"]
        from ..harness import class_shadows_template_import
        if class_shadows_template_import(man):
            ev.count("documents_with_a_class_named_like_a_template_import(C01/C11 finding)")
            continue  # annotations in such a package name the document's class instead of typing.Any / Unset ...
        for a, x in actions_results(res):
            if x.get("action_exc"):
                ev.count("sandbox_action_failed")
                continue
            if a["a"] == "model_info":
                ref = a["x"]["ref"]
                name = ref.rsplit("/", 1)[-1]
                mo = docs.merged_object(comps[name], comps)
                m = man["models"][a["cls"]]
                fields = {f["name"]: f for f in x["fields"]}
                for p in m["props"]:
                    if p["name"] not in mo["properties"]:
                        continue
                    sch = docs.narrowest(mo["properties"][p["name"]], comps)
                    f = fields.get(p["python_name"])
                    w = {"doc": {"components": {"schemas": comps}}, "model": name, "property": p["name"], "schema": sch}
                    if not f:
                        vd.violation("attribute_missing", f"{name}.{p['name']}: no attribute {p['python_name']}", w)
                        continue
                    ev.count("attributes_checked")
                    req = p["name"] in mo["required"]
                    nul = docs.nullable(sch, comps)
                    # a default may come from any declaration of the property (an inherited one stays when a later member re-declares the type)
                    declared_default = any(isinstance(s_, dict) and (s_.get("default") is not None or docs.resolve(s_, comps).get("default") is not None) for s_ in mo["properties"][p["name"]])
                    kindsig = ("req" if req else "opt", "null" if nul else "nonnull", "dflt" if declared_default else "nodflt")
                    if req and not declared_default and f["has_default"]:
                        vd.violation("required_has_default", f"{name}.{p['name']} is required without default but the constructor argument has default {f['default']}", w)
                    if not req and not f["has_default"]:
                        vd.violation("optional_is_mandatory", f"{name}.{p['name']} is optional but a mandatory constructor argument", w)
                    if not req and not declared_default and f["has_default"] and (f["default"] or {}).get("t") != "Unset":
                        vd.violation("optional_default_not_unset", f"{name}.{p['name']} is optional without default but defaults to {f['default']}", w)
                    if not untyped(sch, comps) and f["annotation"] not in (None, "Any"):
                        wrapper = isinstance(sch, dict) and "type" in sch and any(isinstance(sch.get(kw_), list) and len(sch[kw_]) == 1 and "$ref" in sch[kw_][0] for kw_ in ("allOf", "oneOf", "anyOf"))
                        if f["admits_none"] != nul and nul and wrapper:
                            # mechanism: explicit type + nullable + a single-element wrapper around a reference is passed through to the reference
                            vd.violation("none_admission:missing:typed_single_reference_wrapper", f"{name}.{p['name']}: schema nullable=True but annotation {f['annotation']} admits None=False", w)
                        elif f["admits_none"] != nul:
                            vd.violation(f"none_admission:{'missing' if nul else 'spurious'}:model", f"{name}.{p['name']}: schema nullable={nul} but annotation {f['annotation']} admits None={f['admits_none']}", w)
                        if f["admits_unset"] != (not req):
                            vd.violation(f"unset_admission:{'missing' if not req else 'spurious'}:model", f"{name}.{p['name']}: required={req} but annotation {f['annotation']} admits Unset={f['admits_unset']}", w)
                    ev.seen(("C10sig",) + kindsig + (p["kind"],))
            elif a["a"] == "roundtrip":
                if x.get("exc"):
                    continue  # C02's concern
                ref = a["x"]["ref"]
                name = ref.rsplit("/", 1)[-1]
                mo = docs.merged_object(comps[name], comps)
                m = man["models"][a["cls"]]
                v = a["value"]
                flags = a["x"].get("flags") or []
                for p in m["props"]:
                    if p["name"] not in mo["properties"]:
                        continue
                    st = (x.get("attrs") or {}).get(p["python_name"])
                    if st is None:
                        continue
                    ev.count("states_checked")
                    w = {"doc": {"components": {"schemas": comps}}, "model": name, "property": p["name"], "value": v}
                    want = "absent" if p["name"] not in v else ("null" if v[p["name"]] is None else "present")
                    got = "absent" if st["t"] == "Unset" else ("null" if st["t"] == "None" else "present")
                    sch = docs.narrowest(mo["properties"][p["name"]], comps)
                    if got != want and not (untyped(sch, comps) and want == "null"):
                        vd.violation(f"state_conflated:{want}->{got}" + (":" + flags[0] if flags else ""), f"{name}.{p['name']}: key is {want} in the input but the attribute state is {got} ({st})", w)
                    e = x.get("e")
                    if isinstance(e, dict):
                        ewant = "absent" if p["name"] not in e else ("null" if e[p["name"]] is None else "present")
                        if ewant != want:
                            vd.violation(f"reencode_state:{want}->{ewant}" + (":" + flags[0] if flags else ""), f"{name}.{p['name']}: {want} in the input, {ewant} after re-encoding", w)
                    ev.seen(("C10state", want, p["kind"], p["required"]))
            elif a["a"] == "call":
                # parameters on the wire: a passed value (however falsy) is transmitted, an omitted optional one is not
                from ..harness import with_followups
                for a2, x2 in with_followups([(a, x)]):
                    for variant, vr in (x2 or {}).items():
                        reqs = (vr or {}).get("requests") or [] if isinstance(vr, dict) else []
                        if len(reqs) != 1:
                            continue
                        ev.count("parameter_state_requests_checked")
                        for eff_, det in expect.check_request(reqs[0], a2["x"]):
                            parts = eff_.split(":")
                            if parts[0] in ("missing", "extra") and len(parts) > 1 and parts[1] in ("query", "header", "cookie"):
                                nonstr_ = set(a2["x"].get("nonstr") or [])
                                mech_ = ":non_string_value(C03)" if parts[0] == "missing" and (parts[1] in nonstr_ or any(n_.startswith(parts[1] + ":") for n_ in nonstr_)) else ""
                                from ._ops import endpoint_local_capture
                                if endpoint_local_capture(man):
                                    mech_ = ":derived_local_captures_parameter"  # document-level trigger (C18's listed mechanism): an array parameter x next to x_item / x_item_data / json_x
                                vd.violation(f"param_state:{'present->absent' if parts[0] == 'missing' else 'absent->present'}:{parts[1]}{mech_}", f"{a2['module']}.{variant}: {det}", {"doc": doc, "module": a2["module"], "args": a2.get("args"), "x": a2["x"]})
            elif a["a"] == "endpoint_info":
                xx = a["x"]
                if xx.get("unmatched"):
                    continue
                found = find_op(doc, xx["method"], xx["path"].replace("{", "{").replace("}", "}"))
                sd = (x.get("sync_detailed") or {}).get("params") or []
                byname = {p["name"]: p for p in sd}
                op = None
                for path, mth, o, item in docs.iter_ops(doc):
                    if mth == xx["method"] and path == xx["path"]:
                        op, it = o, item
                if op is None:
                    continue
                eff = effective_params(doc, op, it)
                for loc, plist in xx["params"].items():
                    for p in plist:
                        dp = eff.get((p["name"], loc))
                        f = byname.get(p["python_name"])
                        if not dp or not f:
                            continue
                        ev.count("parameters_checked")
                        sch = dp.get("schema", {})
                        req = bool(dp.get("required"))
                        nul = docs.nullable(sch, comps)
                        dd = isinstance(sch, dict) and docs.resolve(sch, comps).get("default") is not None or (isinstance(sch, dict) and sch.get("default") is not None)
                        w = {"operation": f"{xx['method']} {xx['path']}", "parameter": dp}
                        if req and not dd and f["has_default"]:
                            vd.violation("required_has_default:param", f"{w['operation']} parameter {p['name']} is required but has default {f['default']}", w)
                        if not req and not f["has_default"]:
                            vd.violation("optional_is_mandatory:param", f"{w['operation']} parameter {p['name']} is optional but mandatory in the signature", w)
                        if not req and not dd and f["has_default"] and (f["default"] or {}).get("t") != "Unset":
                            vd.violation("optional_default_not_unset:param", f"{w['operation']} parameter {p['name']} defaults to {f['default']}", w)
                        if not untyped(sch, comps) and f["annotation"] not in (None, "Any") and f["admits_none"] != nul:
                            vd.violation(f"none_admission:{'missing' if nul else 'spurious'}:param", f"{w['operation']} parameter {p['name']}: nullable={nul} but annotation {f['annotation']}", w)
                        ev.seen(("C10param", loc, "req" if req else "opt", "null" if nul else "nonnull"))
        if len(ev.samples) < 3 and label.startswith("matrix"):
            ev.sample({"document": label, "attributes_checked_so_far": ev.counters.get("attributes_checked"), "states_checked_so_far": ev.counters.get("states_checked")})
    vd.inconclusive_if(ev.counters.get("attributes_checked", 0) < 300 or ev.counters.get("states_checked", 0) < 2000 or ev.counters.get("parameters_checked", 0) < 100, "too few observations")
    return run.finish()


if __name__ == "__main__":
    main_wrapper(main)
