"""C18 — document names cannot capture the generated code's own names (DESIGN.md section 8, C18).

Differential against a neutral-name control: fixed document shapes (a model with scalar / list / union / nested-model /
additional properties; an operation with a parameter in each location, with and without a body) are instantiated with a
candidate name N and with a control name; the decode/encode and request observations of the N run, after renaming the
wire name N back, must equal the control's.  Candidates are harvested at run time from the AST of the control generation
(every identifier the generated modules use) + keywords, soft keywords, builtins and random ordinary names.
"""
from __future__ import annotations

import ast
import builtins
import json
import keyword
import re

from .. import docs, expect, names
from ..common import rng, seed, tier
from ..harness import Run, actions_results, main_wrapper

CTL = "neutral_zq"


def model_doc(N: str) -> dict:
    d = docs.base_doc("3.0.3", "Capture API")
    d["components"]["schemas"] = {
        "Inner": {"type": "object", "properties": {"k": {"type": "string"}}},
        "M": {"type": "object", "required": ["other"], "properties": {
            N: {"type": "string"}, "other": {"type": "integer"}, "lst": {"type": "array", "items": {"$ref": "#/components/schemas/Inner"}},
            "un": {"oneOf": [{"$ref": "#/components/schemas/Inner"}, {"type": "string", "format": "date"}]}, "inner": {"$ref": "#/components/schemas/Inner"}, "when": {"type": "string", "format": "date-time"},
            "uid": {"type": "string", "format": "uuid"}, "col": {"type": "string", "enum": ["r", "g"]}},
            "additionalProperties": {"type": "integer"}},
        # additional properties that need decoding (the model template loops over the remaining keys with locals of its own)
        "MD": {"type": "object", "properties": {N: {"type": "string"}, "other": {"type": "integer"}}, "additionalProperties": {"type": "string", "format": "date"}},
        "MM": {"type": "object", "properties": {N: {"type": "string"}, "lst": {"type": "array", "items": {"type": "string", "format": "date"}}}, "additionalProperties": {"$ref": "#/components/schemas/Inner"}}}
    return d


def model_instances_more(N: str) -> dict:
    return {"/components/schemas/MD": [["extras", {N: "one", "other": 1, "x1": "2021-03-04", "x2": "2022-05-06"}, []], ["no_extras", {N: "two"}, []], ["only_extras", {"x3": "2023-01-01"}, []]],
            "/components/schemas/MM": [["extras", {N: "one", "lst": ["2020-01-02"], "e1": {"k": "a"}, "e2": {"k": "b"}}, []], ["no_extras", {N: "two", "lst": []}, []]]}


def model_instances(N: str) -> list:
    full = {N: "val", "other": 3, "lst": [{"k": "a"}, {"k": "b"}], "un": "2020-01-02", "inner": {"k": "b"}, "when": "2020-01-02T03:04:05+00:00", "uid": "00000000-0000-4000-8000-0000000000aa", "col": "g", "extra": 7}
    return [["full", full, []], ["min", {"other": 4}, []], ["only", {"other": 5, N: "v2"}, []], ["un_model", {"other": 6, "un": {"k": "z"}, N: "v3"}, []], ["lists", {"other": 7, "lst": [], "extra2": 1}, []]]


def op_doc(N: str, loc: str, body: bool) -> dict:
    params = [{"name": N, "in": loc, "required": loc == "path", "schema": {"type": "string"}}, {"name": "other", "in": "query", "schema": {"type": "string"}}, {"name": "hh", "in": "header", "schema": {"type": "string"}},
              {"name": "cc", "in": "cookie", "schema": {"type": "string"}}, {"name": "lstq", "in": "query", "schema": {"type": "array", "items": {"type": "string", "format": "date"}}}]
    path = "/x/{%s}/y" % N if loc == "path" else "/x/y"
    if loc == "path":
        # a sibling placeholder whose name extends the candidate (type / typeId, in / index)
        params.append({"name": N + "Id", "in": "path", "required": True, "schema": {"type": "string"}})
        path += "/{%sId}" % N
    op = {"operationId": "op", "parameters": params, "responses": {"200": {"description": "ok", "content": {"application/json": {"schema": {"type": "object", "properties": {"r": {"type": "string"}}}}}}}}
    if body:
        op["requestBody"] = {"content": {"application/json": {"schema": {"type": "object", "properties": {"b": {"type": "string"}}}}}}
    d = docs.base_doc("3.0.3", "Capture API")
    d["paths"] = {path: {"post": op}}
    return d


TYPED = {"date": ({"type": "string", "format": "date"}, "2020-01-02"), "datetime": ({"type": "string", "format": "date-time"}, "2020-01-02T03:04:05+00:00"),
         "uuid": ({"type": "string", "format": "uuid"}, "00000000-0000-4000-8000-0000000000aa"), "enum": ({"type": "string", "enum": ["r", "g"]}, "g"), "ienum": ({"type": "integer", "enum": [1, 2]}, 2),
         "model": ({"$ref": "#/components/schemas/Inner"}, {"k": "a"}), "dates": ({"type": "array", "items": {"type": "string", "format": "date"}}, ["2020-01-02", "2021-03-04"]),
         "models": ({"type": "array", "items": {"$ref": "#/components/schemas/Inner"}}, [{"k": "a"}]), "union": ({"oneOf": [{"$ref": "#/components/schemas/Inner"}, {"type": "string", "format": "date"}]}, "2021-02-03"),
         "int": ({"type": "integer"}, 5), "num": ({"type": "number"}, 2.5), "bool": ({"type": "boolean"}, True), "nstr": ({"type": "string", "nullable": True}, "txt"), "any": ({}, "free")}


def typed_doc(N: str) -> dict:
    """The candidate as a property of every kind (each kind has its own template with its own locals), in a model that is a
    JSON value, a JSON body, a form body and a multipart body."""
    d = docs.base_doc("3.0.3", "Capture API typed")
    d["components"]["schemas"] = {"Inner": {"type": "object", "properties": {"k": {"type": "string"}}}}
    d["paths"] = {}
    ok = {"200": {"description": "ok"}}
    for kind, (sch, _) in TYPED.items():
        d["components"]["schemas"]["T" + kind] = {"type": "object", "required": ["other"], "properties": {N: docs.clone(sch), "other": {"type": "integer"}}}
        ref = {"$ref": "#/components/schemas/T" + kind}
        d["paths"][f"/json/{kind}"] = {"post": {"operationId": f"json_{kind}", "requestBody": {"content": {"application/json": {"schema": ref}}}, "responses": ok}}
        d["paths"][f"/multi/{kind}"] = {"post": {"operationId": f"multi_{kind}", "requestBody": {"content": {"multipart/form-data": {"schema": ref}}}, "responses": ok}}
        if kind in ("date", "datetime", "uuid", "enum", "ienum", "int", "num", "bool", "nstr", "dates"):
            d["paths"][f"/form/{kind}"] = {"post": {"operationId": f"form_{kind}", "requestBody": {"content": {"application/x-www-form-urlencoded": {"schema": ref}}}, "responses": ok}}
    return d


def norm_typed_obs(res: dict, N: str):
    import base64
    out = []
    rn = lambda k: "§" if k == N else k  # noqa: E731
    for a, x in actions_results(res):
        tag = (a.get("x") or {}).get("typed"), (a.get("x") or {}).get("what")
        if a["a"] == "getattr":
            out.append((tag, "missing"))
        elif x.get("action_exc"):
            out.append((tag, "action_exc", x["action_exc"]["type"]))
        elif a["a"] == "roundtrip":
            if x.get("exc"):
                out.append((tag, "exc", x["stage"], x["exc"]["type"]))
            else:
                e = x.get("e")
                out.append((tag, "ok", json.dumps({rn(k): v for k, v in e.items()} if isinstance(e, dict) else e, sort_keys=True), x.get("eq2"), bool(x.get("nonplain"))))
        elif a["a"] == "call":
            vr = x.get("sync_detailed") or {}
            reqs = vr.get("requests") or []
            if not reqs:
                out.append((tag, "exc", (vr.get("exc") or {}).get("type")))
                continue
            c = reqs[0]
            hd = {k.lower(): v for k, v in c["headers"]}
            ct = hd.get("content-type") or ""
            content = base64.b64decode(c["content"])
            if ct.startswith("multipart/form-data"):
                parts = expect.parse_multipart(content, ct)
                body = sorted((rn(str(k)), tuple((p.get("payload") or b"").decode("utf-8", "replace") for p in v)) for k, v in parts.items())
                out.append((tag, "multipart", tuple(body)))
            elif ct.startswith("application/json"):
                try:
                    jb = json.loads(content)
                    out.append((tag, "json", json.dumps({rn(k): v for k, v in jb.items()} if isinstance(jb, dict) else jb, sort_keys=True)))
                except ValueError:
                    out.append((tag, "json", "unparseable"))
            else:
                import urllib.parse
                out.append((tag, ct.split(";")[0], tuple(sorted((rn(k), v) for k, v in urllib.parse.parse_qsl(content.decode("utf-8", "replace"), keep_blank_values=True)))))
    return out


def harvest(trees: list) -> set:
    out = set()
    for tree in trees:
        for rel, src in tree.items():
            if not rel.endswith(".py") or not isinstance(src, str):
                continue
            try:
                t = ast.parse(src)
            except SyntaxError:
                continue
            for n in ast.walk(t):
                for a in ("id", "arg", "attr", "name"):
                    v = getattr(n, a, None)
                    if isinstance(v, str):
                        out.add(v)
                if isinstance(n, ast.alias):
                    out.add((n.asname or n.name).split(".")[0])
                    out.add(n.name.split(".")[-1])
                if isinstance(n, ast.keyword) and n.arg:
                    out.add(n.arg)
    return {n for n in out if n.isidentifier()}


def norm_model_obs(res: dict, N: str):
    out = []
    for a, x in actions_results(res):
        if a["a"] != "roundtrip":
            continue
        if x.get("action_exc"):
            out.append(("action_exc", x["action_exc"]["type"]))
        elif x.get("exc"):
            out.append(("exc", x["stage"], x["exc"]["type"]))
        else:
            e = x.get("e")
            e2 = {("§" if k == N else k): v for k, v in e.items()} if isinstance(e, dict) else e
            want = {("§" if k == N else k): v for k, v in a["value"].items()}
            out.append(("ok", json.dumps(e2, sort_keys=True), expect.jeq(e2, want), x.get("eq2"), bool(x.get("nonplain"))))
    return out


def norm_op_obs(res: dict, N: str, loc: str):
    out = []
    for a, x in actions_results(res):
        if a["a"] != "call":
            continue
        if x.get("action_exc"):
            out.append(("action_exc", x["action_exc"]["type"]))
            continue
        for variant, vr in sorted(x.items()):
            reqs = vr.get("requests") or []
            if vr.get("exc") and not reqs:
                out.append((variant, "exc", vr["exc"]["type"]))
                continue
            c = reqs[0]
            hd = {k.lower(): v for k, v in c["headers"]}
            q = sorted((("§" if k == N else k), v) for k, v in c["query"])
            cookie = sorted(("§" if p.split("=")[0] == N else p.split("=")[0], p.split("=", 1)[1]) for p in (hd.get("cookie") or "").split("; ") if "=" in p)
            parsed = (vr.get("result") or {}).get("parsed") or vr.get("result") or {}
            out.append((variant, "ok", c["path"], tuple(q), hd.get(N.lower()) if loc == "header" else None, hd.get("hh"), tuple(cookie), c["content"], (parsed.get("json") if isinstance(parsed, dict) else None) is not None or parsed.get("t")))
    return out


def main() -> int:
    quick = tier() == "quick"
    run = Run("C18")
    r = rng("C18", seed())
    ev, vd = run.ev, run.vd
    ev.rule = ("candidate names = every identifier in the AST of the control generations (harvested at run time) + keywords + soft keywords + dir(builtins) + random ordinary names; each used as a model property name (model with scalar / "
               "list-of-model / union / nested-model / date-time / uuid / enum / typed additional properties) and as a query / header / cookie / path parameter name with and without a request body; oracle: observations equal to the "
               "neutral-name control after renaming the wire name back. distinct = distinct (scope, candidate) pairs compared")
    ev.assumptions = ["candidates that HTTP cannot carry as header / cookie names never arise (identifiers are tokens)"]
    scopes = [("model", None, None), ("typed", None, None)] + [("param", loc, body) for loc in ("query", "header", "cookie", "path") for body in (False, True)]

    def jobs_for(N: str):
        out = []
        for scope, loc, body in scopes:
            if scope == "typed":
                j = run.job(typed_doc(N), want=["tree"] if N == CTL else [], plan={"fn": "c18_typed", "args": {"N": N, "values": {k: v for k, (_, v) in TYPED.items()}}})
            elif scope == "model":
                j = run.job(model_doc(N), want=["tree"] if N == CTL else [], plan={"fn": "models_given", "args": {"instances": {"/components/schemas/M": model_instances(N), **model_instances_more(N)}}})
            else:
                j = run.job(op_doc(N, loc, body), want=["tree"] if N == CTL else [], plan={"fn": "c18_ops", "args": {"N": N, "loc": loc, "body": body}})
            out.append(((scope, loc, body), j))
        return out

    ctl_jobs = jobs_for(CTL)
    ctl_res = run.map([j for _, j in ctl_jobs], timeout=300)
    control = {}
    trees = []
    for (sc, j), res in zip(ctl_jobs, ctl_res):
        if res.get("_error") or res.get("exc") or not res.get("accepted"):
            vd.inconclusive_if(True, f"control generation failed for {sc}")
            return run.finish()
        trees.append(res.get("tree") or {})
        control[sc] = norm_model_obs(res, CTL) if sc[0] == "model" else norm_typed_obs(res, CTL) if sc[0] == "typed" else norm_op_obs(res, CTL, sc[1])
        if sc[0] == "typed":
            bad_ctl = [o for o in control[sc] if o[1] in ("missing", "action_exc", "exc")]
            vd.inconclusive_if(bool(bad_ctl), f"the neutral-name control of the typed scope does not work: {bad_ctl[:3]}")
    cands = harvest(trees) | set(keyword.kwlist) | set(keyword.softkwlist)
    # identifiers the control *endpoint* modules use: each is tried in every parameter scope, also in the quick tier
    endpoint_ids = harvest([{k: v for k, v in t.items() if "/api/" in "/" + k} for t in trees]) - set(dir(builtins)) - {"Any", "Optional", "Union", "cast", "HTTPStatus", "httpx", "errors", "Response", "Client", "AuthenticatedClient", "UNSET", "Unset"}
    ev.extra["endpoint_module_identifiers"] = len(endpoint_ids)
    cands -= {CTL, "other", "lst", "un", "inner", "hh", "cc", "k", "b", "r", "when", "uid", "col", "lstq", "M", "Inner"}
    ev.extra["harvested_identifiers"] = len(cands)
    blt = sorted(b for b in dir(builtins) if b.isidentifier())
    cands |= set(blt if not quick else r.sample(blt, 40))
    # compatibility spellings (NFKC-equal to a reserved / template-own word, but a different string)
    critical = sorted(set(keyword.kwlist) | {"self", "client", "url", "cls", "d", "params", "headers", "cookies", "body", "kwargs", "response", "type", "id", "list", "dict", "field_dict", "to_dict", "from_dict", "json", "datetime", "true", "none"})
    compat = {names.fullwidth(c) for c in (critical if not quick else r.sample(critical, 14) + ["self", "client", "class", "url"])}
    cands |= compat
    controls = {names.benign(r, "snake") + "_zc" for _ in range(10)} | {names.fullwidth("widget"), names.fullwidth("neutral")}
    cands |= controls
    cands = sorted(cands)
    if quick:
        # every harvested identifier is used as model property and query parameter; other scopes on a seeded sample
        pass
    jobs, info = [], {}
    for ci, N in enumerate(cands):
        for sc, j in jobs_for(N):
            if not N.isascii() and sc[0] == "param" and sc[1] != "query":
                continue  # header / cookie / path-template names are ASCII tokens
            if quick and sc[0] == "param" and not (sc == ("param", "query", True) or N in endpoint_ids or (ci + sum(map(ord, str(sc))) % 7) % 4 == 0):
                continue
            info[j["id"]] = (N, sc)
            jobs.append(j)
    rs = run.map(jobs, timeout=300)
    # names already captured as a plain string property (scope "model") in this run: the typed scope sees the same capture again
    captured_plain = set()
    for j, res in zip(jobs, rs):
        N, sc = info[j["id"]]
        if sc[0] == "model" and not res.get("_error") and not res.get("exc") and actions_results(res) and norm_model_obs(res, N) != control[sc]:
            captured_plain.add(N)
    for j, res in zip(jobs, rs):
        N, sc = info[j["id"]]
        scope = sc[0] if sc[0] in ("model", "typed") else f"param:{sc[1]}{'+body' if sc[2] else ''}"
        if res.get("_error") or (res.get("sandbox") or {}).get("_error"):
            continue
        w = {"name": N, "scope": scope, "doc": j["doc"]}
        ev.count("candidates_compared")
        if res.get("exc"):
            vd.violation(f"generator_crashed:{scope}:{N}", f"name {N!r} as {scope}: generator crashed {res['exc']['type']}", w)
            continue
        man_missing = res.get("plan_error") or not actions_results(res)
        if man_missing:
            named = any(N in ((d.get("detail") or "") + (d.get("header") or "") + (d.get("data") or "")) for d in res.get("diags") or [])
            if res.get("diags"):
                ev.count("rejected_with_diagnostic")
            else:
                vd.violation(f"not_generated_silently:{scope}:{N}", f"name {N!r} as {scope}: nothing to exercise and no diagnostic", w)
            continue
        obs = norm_model_obs(res, N) if sc[0] == "model" else norm_typed_obs(res, N) if sc[0] == "typed" else norm_op_obs(res, N, sc[1])
        if sc[0] == "typed" and obs != control[sc]:
            # one violation per captured template (kind x use), so that a listed capture in one template does not hide another
            ctl_by = {o[0]: o for o in control[sc]}
            for o in obs:
                if ctl_by.get(o[0]) != o:
                    import unicodedata
                    if o[1] == "missing" and any(("T" + str(o[0][0])) in ((d_.get("detail") or "") + (d_.get("header") or "")) for d_ in res.get("diags") or []):
                        ev.count("rejected_with_diagnostic")
                        continue
                    if N in captured_plain:
                        vd.violation(f"captured_name:model:{unicodedata.normalize('NFKC', N)}", f"name {N!r} as a {o[0][0]} property ({o[0][1]}): {str(o[1:])[:160]} vs control {str((ctl_by.get(o[0]) or ())[1:])[:160]} (also captured as a plain string property)", w)
                        break
                    vd.violation(f"captured_name:typed:{o[0][0]}:{unicodedata.normalize('NFKC', N)}", f"name {N!r} as a {o[0][0]} property ({o[0][1]}): {str(o[1:])[:160]} vs control {str((ctl_by.get(o[0]) or ())[1:])[:160]}", w)
                    break
        elif obs != control[sc]:
            first = next((i for i, (a, b) in enumerate(zip(obs, control[sc])) if a != b), None)
            import unicodedata
            vd.violation(f"captured_name:{'model' if sc[0] == 'model' else 'param:' + str(sc[1])}:{unicodedata.normalize('NFKC', N)}", f"name {N!r} as {scope}: observation differs from the neutral-name control: {str(obs[first])[:160] if first is not None else len(obs)} vs {str(control[sc][first])[:160] if first is not None else len(control[sc])}", w)
        ev.seen(("C18", scope, N))
        if len(ev.samples) < 4 and N in ("d", "kwargs", "self", "response") and obs == control[sc]:
            ev.sample({"candidate": N, "scope": scope, "observations_equal_to_control": len(obs)})
    ev.extra["candidates"] = len(cands)
    vd.inconclusive_if(ev.counters.get("candidates_compared", 0) < 300, "too few candidates compared")
    return run.finish()


if __name__ == "__main__":
    main_wrapper(main)
