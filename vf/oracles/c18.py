"""C18 — document names cannot capture the generated code's own names (DESIGN.md section 8, C18).

Differential against a neutral-name control: fixed document shapes (a model with scalar / list / union / nested-model /
additional properties; an operation with a parameter in each location, with and without a body) are instantiated with a
candidate name N and with a control name; the decode/encode and request observations of the N run, after renaming the
wire name N back, must equal the control's.  Candidates are harvested at run time from the AST of the control generation
(every identifier the generated modules use) + keywords, soft keywords, builtins and random ordinary names.
"""
from __future__ import annotations

import ast
import builtins
import json
import keyword
import re

from .. import docs, expect, names
from ..common import rng, seed, tier
from ..harness import Run, actions_results, main_wrapper

CTL = "neutral_zq"


def model_doc(N: str) -> dict:
    d = docs.base_doc("3.0.3", "Capture API")
    d["components"]["schemas"] = {
        "Inner": {"type": "object", "properties": {"k": {"type": "string"}}},
        "M": {"type": "object", "required": ["other"], "properties": {
            N: {"type": "string"}, "other": {"type": "integer"}, "lst": {"type": "array", "items": {"$ref": "#/components/schemas/Inner"}},
            "un": {"oneOf": [{"$ref": "#/components/schemas/Inner"}, {"type": "string", "format": "date"}]}, "inner": {"$ref": "#/components/schemas/Inner"}, "when": {"type": "string", "format": "date-time"},
            "uid": {"type": "string", "format": "uuid"}, "col": {"type": "string", "enum": ["r", "g"]}},
            "additionalProperties": {"type": "integer"}},
        # additional properties that need decoding (the model template loops over the remaining keys with locals of its own)
        "MD": {"type": "object", "properties": {N: {"type": "string"}, "other": {"type": "integer"}}, "additionalProperties": {"type": "string", "format": "date"}},
        "MM": {"type": "object", "properties": {N: {"type": "string"}, "lst": {"type": "array", "items": {"type": "string", "format": "date"}}}, "additionalProperties": {"$ref": "#/components/schemas/Inner"}}}
    return d


def model_instances_more(N: str) -> dict:
    return {"/components/schemas/MD": [["extras", {N: "one", "other": 1, "x1": "2021-03-04", "x2": "2022-05-06"}, []], ["no_extras", {N: "two"}, []], ["only_extras", {"x3": "2023-01-01"}, []]],
            "/components/schemas/MM": [["extras", {N: "one", "lst": ["2020-01-02"], "e1": {"k": "a"}, "e2": {"k": "b"}}, []], ["no_extras", {N: "two", "lst": []}, []]]}


def model_instances(N: str) -> list:
    full = {N: "val", "other": 3, "lst": [{"k": "a"}, {"k": "b"}], "un": "2020-01-02", "inner": {"k": "b"}, "when": "2020-01-02T03:04:05+00:00", "uid": "00000000-0000-4000-8000-0000000000aa", "col": "g", "extra": 7}
    return [["full", full, []], ["min", {"other": 4}, []], ["only", {"other": 5, N: "v2"}, []], ["un_model", {"other": 6, "un": {"k": "z"}, N: "v3"}, []], ["lists", {"other": 7, "lst": [], "extra2": 1}, []]]


def op_doc(N: str, loc: str, body: bool) -> dict:
    params = [{"name": N, "in": loc, "required": loc == "path", "schema": {"type": "string"}}, {"name": "other", "in": "query", "schema": {"type": "string"}}, {"name": "hh", "in": "header", "schema": {"type": "string"}},
              {"name": "cc", "in": "cookie", "schema": {"type": "string"}}, {"name": "lstq", "in": "query", "schema": {"type": "array", "items": {"type": "string", "format": "date"}}}]
    path = "/x/{%s}/y" % N if loc == "path" else "/x/y"
    if loc == "path":
        # a sibling placeholder whose name extends the candidate (type / typeId, in / index)
        params.append({"name": N + "Id", "in": "path", "required": True, "schema": {"type": "string"}})
        path += "/{%sId}" % N
    op = {"operationId": "op", "parameters": params, "responses": {"200": {"description": "ok", "content": {"application/json": {"schema": {"type": "object", "properties": {"r": {"type": "string"}}}}}}}}
    if body:
        op["requestBody"] = {"content": {"application/json": {"schema": {"type": "object", "properties": {"b": {"type": "string"}}}}}}
    d = docs.base_doc("3.0.3", "Capture API")
    d["paths"] = {path: {"post": op}}
    return d


def harvest(trees: list) -> set:
    out = set()
    for tree in trees:
        for rel, src in tree.items():
            if not rel.endswith(".py") or not isinstance(src, str):
                continue
            try:
                t = ast.parse(src)
            except SyntaxError:
                continue
            for n in ast.walk(t):
                for a in ("id", "arg", "attr", "name"):
                    v = getattr(n, a, None)
                    if isinstance(v, str):
                        out.add(v)
                if isinstance(n, ast.alias):
                    out.add((n.asname or n.name).split(".")[0])
                    out.add(n.name.split(".")[-1])
                if isinstance(n, ast.keyword) and n.arg:
                    out.add(n.arg)
    return {n for n in out if n.isidentifier()}


def norm_model_obs(res: dict, N: str):
    out = []
    for a, x in actions_results(res):
        if a["a"] != "roundtrip":
            continue
        if x.get("action_exc"):
            out.append(("action_exc", x["action_exc"]["type"]))
        elif x.get("exc"):
            out.append(("exc", x["stage"], x["exc"]["type"]))
        else:
            e = x.get("e")
            e2 = {("§" if k == N else k): v for k, v in e.items()} if isinstance(e, dict) else e
            want = {("§" if k == N else k): v for k, v in a["value"].items()}
            out.append(("ok", json.dumps(e2, sort_keys=True), expect.jeq(e2, want), x.get("eq2"), bool(x.get("nonplain"))))
    return out


def norm_op_obs(res: dict, N: str, loc: str):
    out = []
    for a, x in actions_results(res):
        if a["a"] != "call":
            continue
        if x.get("action_exc"):
            out.append(("action_exc", x["action_exc"]["type"]))
            continue
        for variant, vr in sorted(x.items()):
            reqs = vr.get("requests") or []
            if vr.get("exc") and not reqs:
                out.append((variant, "exc", vr["exc"]["type"]))
                continue
            c = reqs[0]
            hd = {k.lower(): v for k, v in c["headers"]}
            q = sorted((("§" if k == N else k), v) for k, v in c["query"])
            cookie = sorted(("§" if p.split("=")[0] == N else p.split("=")[0], p.split("=", 1)[1]) for p in (hd.get("cookie") or "").split("; ") if "=" in p)
            parsed = (vr.get("result") or {}).get("parsed") or vr.get("result") or {}
            out.append((variant, "ok", c["path"], tuple(q), hd.get(N.lower()) if loc == "header" else None, hd.get("hh"), tuple(cookie), c["content"], (parsed.get("json") if isinstance(parsed, dict) else None) is not None or parsed.get("t")))
    return out


def main() -> int:
    quick = tier() == "quick"
    run = Run("C18")
    r = rng("C18", seed())
    ev, vd = run.ev, run.vd
    ev.rule = ("candidate names = every identifier in the AST of the control generations (harvested at run time) + keywords + soft keywords + dir(builtins) + random ordinary names; each used as a model property name (model with scalar / "
               "list-of-model / union / nested-model / date-time / uuid / enum / typed additional properties) and as a query / header / cookie / path parameter name with and without a request body; oracle: observations equal to the "
               "neutral-name control after renaming the wire name back. distinct = distinct (scope, candidate) pairs compared")
    ev.assumptions = ["candidates that HTTP cannot carry as header / cookie names never arise (identifiers are tokens)"]
    scopes = [("model", None, None)] + [("param", loc, body) for loc in ("query", "header", "cookie", "path") for body in (False, True)]

    def jobs_for(N: str):
        out = []
        for scope, loc, body in scopes:
            if scope == "model":
                j = run.job(model_doc(N), want=["tree"] if N == CTL else [], plan={"fn": "models_given", "args": {"instances": {"/components/schemas/M": model_instances(N), **model_instances_more(N)}}})
            else:
                j = run.job(op_doc(N, loc, body), want=["tree"] if N == CTL else [], plan={"fn": "c18_ops", "args": {"N": N, "loc": loc, "body": body}})
            out.append(((scope, loc, body), j))
        return out

    ctl_jobs = jobs_for(CTL)
    ctl_res = run.map([j for _, j in ctl_jobs], timeout=300)
    control = {}
    trees = []
    for (sc, j), res in zip(ctl_jobs, ctl_res):
        if res.get("_error") or res.get("exc") or not res.get("accepted"):
            vd.inconclusive_if(True, f"control generation failed for {sc}")
            return run.finish()
        trees.append(res.get("tree") or {})
        control[sc] = norm_model_obs(res, CTL) if sc[0] == "model" else norm_op_obs(res, CTL, sc[1])
    cands = harvest(trees) | set(keyword.kwlist) | set(keyword.softkwlist)
    cands -= {CTL, "other", "lst", "un", "inner", "hh", "cc", "k", "b", "r", "when", "uid", "col", "lstq", "M", "Inner"}
    ev.extra["harvested_identifiers"] = len(cands)
    blt = sorted(b for b in dir(builtins) if b.isidentifier())
    cands |= set(blt if not quick else r.sample(blt, 40))
    # compatibility spellings (NFKC-equal to a reserved / template-own word, but a different string)
    critical = sorted(set(keyword.kwlist) | {"self", "client", "url", "cls", "d", "params", "headers", "cookies", "body", "kwargs", "response", "type", "id", "list", "dict", "field_dict", "to_dict", "from_dict", "json", "datetime", "true", "none"})
    compat = {names.fullwidth(c) for c in (critical if not quick else r.sample(critical, 14) + ["self", "client", "class", "url"])}
    cands |= compat
    controls = {names.benign(r, "snake") + "_zc" for _ in range(10)} | {names.fullwidth("widget"), names.fullwidth("neutral")}
    cands |= controls
    cands = sorted(cands)
    if quick:
        # every harvested identifier is used as model property and query parameter; other scopes on a seeded sample
        pass
    jobs, info = [], {}
    for ci, N in enumerate(cands):
        for sc, j in jobs_for(N):
            if not N.isascii() and sc[0] == "param" and sc[1] != "query":
                continue  # header / cookie / path-template names are ASCII tokens
            if quick and sc[0] == "param" and not (sc == ("param", "query", True) or (ci + sum(map(ord, str(sc))) % 7) % 4 == 0):
                continue
            info[j["id"]] = (N, sc)
            jobs.append(j)
    rs = run.map(jobs, timeout=300)
    for j, res in zip(jobs, rs):
        N, sc = info[j["id"]]
        scope = "model" if sc[0] == "model" else f"param:{sc[1]}{'+body' if sc[2] else ''}"
        if res.get("_error") or (res.get("sandbox") or {}).get("_error"):
            continue
        w = {"name": N, "scope": scope, "doc": j["doc"]}
        ev.count("candidates_compared")
        if res.get("exc"):
            vd.violation(f"generator_crashed:{scope}:{N}", f"name {N!r} as {scope}: generator crashed {res['exc']['type']}", w)
            continue
        man_missing = res.get("plan_error") or not actions_results(res)
        if man_missing:
            named = any(N in ((d.get("detail") or "") + (d.get("header") or "") + (d.get("data") or "")) for d in res.get("diags") or [])
            if res.get("diags"):
                ev.count("rejected_with_diagnostic")
            else:
                vd.violation(f"not_generated_silently:{scope}:{N}", f"name {N!r} as {scope}: nothing to exercise and no diagnostic", w)
            continue
        obs = norm_model_obs(res, N) if sc[0] == "model" else norm_op_obs(res, N, sc[1])
        if obs != control[sc]:
            first = next((i for i, (a, b) in enumerate(zip(obs, control[sc])) if a != b), None)
            import unicodedata
            vd.violation(f"captured_name:{'model' if sc[0] == 'model' else 'param'}:{unicodedata.normalize('NFKC', N)}", f"name {N!r} as {scope}: observation differs from the neutral-name control: {str(obs[first])[:160] if first is not None else len(obs)} vs {str(control[sc][first])[:160] if first is not None else len(control[sc])}", w)
        ev.seen(("C18", scope, N))
        if len(ev.samples) < 4 and N in ("d", "kwargs", "self", "response") and obs == control[sc]:
            ev.sample({"candidate": N, "scope": scope, "observations_equal_to_control": len(obs)})
    ev.extra["candidates"] = len(cands)
    vd.inconclusive_if(ev.counters.get("candidates_compared", 0) < 300, "too few candidates compared")
    return run.finish()


if __name__ == "__main__":
    main_wrapper(main)
