"""C11 — generated code type-checks and its annotations are truthful (DESIGN.md section 8, C11).

(a) O-MYPY: mypy with the project's own strictness flags (disallow_any_generics, disallow_untyped_defs,
    warn_redundant_casts, strict_equality) over batches of generated packages; any error is a violation, attributed by
    error code and artefact kind.  mypy is used as the project-defined acceptance oracle over *observed generator
    outputs*, like compile() and tomllib elsewhere.
(c) every declared default of a model attribute / endpoint parameter conforms at run time to that attribute's /
    parameter's annotation (exact types: a float under `int` is a mismatch).
(b) M-TYPE: every value produced by from_dict / _parse_response conforms at run time to the annotation of the attribute /
    return value that holds it; every value admitted by a parameter annotation (each union member, None where admitted,
    UNSET where optional) is accepted by the encoder (_get_kwargs / to_dict do not raise).
"""
from __future__ import annotations

import os
import re
import shutil
import subprocess
import time
from pathlib import Path

from .. import docs
from ..common import VERIF, scratch, seed, tier
from ..harness import Run, actions_results, artefact_kind, main_wrapper
from ._ops import one_flag

MYPY = "/venv/bin/mypy"


def run_mypy(batch: Path, pkgs: list, tag: str):
    cfg = batch / f"mypy-{tag}.ini"
    cfg.write_text("[mypy]\ndisallow_any_generics = True\ndisallow_untyped_defs = True\nwarn_redundant_casts = True\nstrict_equality = True\n")
    env = dict(os.environ, MYPYPATH=str(VERIF / "vf" / "stubs"))
    t0 = time.time()
    p = subprocess.run([MYPY, "--config-file", str(cfg), "--cache-dir", str(batch / f".mypy_cache_{tag}"), "--no-error-summary", "--show-error-codes", "--no-color-output", "--hide-error-context"] + pkgs,
                       cwd=str(batch), capture_output=True, text=True, env=env, timeout=1500)
    return p.returncode, p.stdout, p.stderr, time.time() - t0


def main() -> int:
    quick = tier() == "quick"
    run = Run("C11")
    ev, vd = run.ev, run.vd
    ev.rule = ("(a) mypy (project flags) over batches of generated packages from the feature matrix (every schema kind x position, both enum styles) and random documents; "
               "(b) M-TYPE on every decode (model round trips) and every parsed response of the same packages, plus encoder acceptance of each union member / None / UNSET admitted by parameter annotations. "
               "distinct = distinct (document feature set, enum style) signatures among packages that reached mypy, plus runtime conformance observations")
    ev.assumptions = ["a two-file dateutil stub stands in for types-python-dateutil (not installed)", "mypy 2.3 from /venv is the project's checker"]
    batch = scratch() / "mypybatch"
    batch.mkdir(parents=True, exist_ok=True)
    jobs, info = [], {}
    mdocs = docs.matrix_docs()
    for k, (label, d) in enumerate(mdocs[:: (3 if quick else 1)]):
        for le in ((k % 2 == 1,) if quick else (False, True)):
            j = run.job(d, want=["manifest"], keep=True, cfg={"literal_enums": le}, plan={"fn": "c11", "args": {"seed": seed()}})
            j["work"] = str(batch)
            info[j["id"]] = ("matrix:" + label, {label.split(":")[1], "le" if le else "enum"})
            jobs.append(j)
    for label, d in docs.typing_stress_docs():
        for le in (False, True):
            j = run.job(d, want=["manifest"], keep=True, cfg={"literal_enums": le}, plan={"fn": "import_info", "args": {}})
            j["work"] = str(batch)
            info[j["id"]] = (label, {label, "le" if le else "enum"})
            jobs.append(j)
    for label, d in docs.sharing_docs()[:: (3 if quick else 1)]:
        j = run.job(d, want=["manifest"], keep=True, plan={"fn": "c11", "args": {"seed": seed()}})
        j["work"] = str(batch)
        info[j["id"]] = (label, {label})
        jobs.append(j)
    inter = [(l, d) for l, d in docs.interplay_docs() if not any(x in l for x in ("path_default", "reserved_body", "named_Union"))]  # (those do not import: C01's findings)
    for k, (label, d) in enumerate(inter[:: (7 if quick else 1)]):
        le = k % 2 == 0
        j = run.job(d, want=["manifest"], keep=True, cfg={"literal_enums": le}, plan={"fn": "c11", "args": {"seed": seed()}})
        j["work"] = str(batch)
        info[j["id"]] = (label, {"interplay", label.split(":")[1].rsplit("_", 1)[0], "le" if le else "enum"})
        jobs.append(j)
    for i in range(16 if quick else 1600):
        d, feats = docs.random_doc(("C11", seed(), i))
        le = i % 3 == 2
        j = run.job(d, want=["manifest"], keep=True, cfg={"literal_enums": le}, plan={"fn": "c11", "args": {"seed": seed() * 13 + i}})
        j["work"] = str(batch)
        info[j["id"]] = (f"random:{i}", feats | {"le" if le else "enum"})
        jobs.append(j)
    rs = run.map(jobs, timeout=400)
    pkgs, owner = [], {}
    unbound: dict = {}
    shadow_pkgs: set = set()
    param_local_modules: set = set()
    capture_pkgs: dict = {}
    for j, res in zip(jobs, rs):
        label, feats = info[j["id"]]
        if res.get("_error") or res.get("exc") or not res.get("accepted"):
            continue
        # ---- (b) M-TYPE
        broken_imports = False
        for a, x in actions_results(res):
            if a["a"] == "import_all" and not x.get("action_exc"):
                for u_ in x.get("unresolved") or []:
                    if str(u_.get("what") or "").startswith("global name "):
                        # a name a function body uses that exists for the type checker only (imported under TYPE_CHECKING): decided after mypy has run
                        unbound.setdefault(Path(res["outdir"]).name, []).append((u_["module"], u_["what"], label, j))
            if a["a"] == "import_all" and not x.get("action_exc") and (x.get("unresolved") or x.get("errors") or x.get("syntax")):
                broken_imports = True  # C01's concern (known cascade finding); decode fall-through in such a package is its consequence
        if broken_imports:
            ev.count("packages_with_import_defects(C01)")
        from ..harness import class_shadows_template_import
        shadowing = class_shadows_template_import(res.get("manifest") or {})
        if shadowing:
            ev.count("packages_with_a_class_named_like_a_template_import")
            shadow_pkgs.add(Path(res["outdir"]).name)
        from ._ops import derived_local_capture_names
        cn_ = derived_local_capture_names(res.get("manifest") or {})
        if cn_:
            capture_pkgs[Path(res["outdir"]).name] = cn_
        for e_ in (res.get("manifest") or {}).get("endpoints") or []:
            if {p_["python_name"] for loc_ in e_["params"].values() for p_ in loc_} & {"kwargs", "response", "headers", "cookies", "params"}:
                param_local_modules.add(f"{Path(res['outdir']).name}/api/{e_['tag']}/{e_['module']}.py")
        from ..harness import with_followups
        for a, x in with_followups(actions_results(res)):
            if a["a"] == "import_all":
                continue
            if x.get("action_exc"):
                ev.count("sandbox_action_failed")
                continue
            w = {"doc": j["doc"], "cfg": j.get("cfg"), "action": {k: v for k, v in a.items() if k != "x"}}
            if a["a"] == "roundtrip":
                ev.count("decoded_values_checked")
                fl = a["x"].get("flags") or []
                for tp in (x.get("type_problems") or []) if not broken_imports else []:
                    vd.violation("annotation_mismatch:class_shadows_template_import" if shadowing else "annotation_mismatch:attribute" + (":" + one_flag(fl) if fl else ""), f"{a['cls']}: {tp}", w)
            elif a["a"] == "call":
                for variant, vr in x.items():
                    if vr.get("missing") or not vr.get("requests"):
                        continue
                    ev.count("parsed_responses_checked")
                    fl = (a["x"].get("response") or {}).get("flags") or []
                    for tp in (vr.get("type_problems") or []) if not broken_imports else []:
                        vd.violation("annotation_mismatch:class_shadows_template_import" if shadowing else "annotation_mismatch:response" + (":" + one_flag(fl) if fl else ""), f"{a['module']}.{variant}: {tp}", w)
            elif a["a"] == "model_info":
                for f_ in x.get("fields") or []:
                    if f_.get("has_default"):
                        ev.count("declared_defaults_checked_against_annotation")
                    if f_.get("default_problem") and not broken_imports:
                        vd.violation("default_violates_annotation:class_shadows_template_import" if shadowing else "default_violates_annotation:attribute", f"{a['cls']}.{f_['name']}: default {f_.get('default')} - {f_['default_problem']} (annotation {f_.get('annotation')})", w)
            elif a["a"] == "endpoint_info":
                for fn_, si_ in x.items():
                    if not isinstance(si_, dict):
                        continue
                    for p_ in si_.get("params") or []:
                        if p_.get("has_default"):
                            ev.count("declared_defaults_checked_against_annotation")
                        if p_.get("default_problem") and not broken_imports:
                            vd.violation("default_violates_annotation:class_shadows_template_import" if shadowing else "default_violates_annotation:parameter", f"{a['module']}.{fn_}({p_['name']}): default {p_.get('default')} - {p_['default_problem']} (annotation {p_.get('annotation')})", w)
            elif a["a"] == "get_kwargs":
                ev.count("admitted_values_encoded")
                if x.get("exc"):
                    vd.violation(f"admitted_value_rejected:{a['x']['member']}:{a['x']['loc']}", f"{a['module']}._get_kwargs({a['x']['param']}={a['x']['member']}) raised {x['exc']['type']}: {x['exc']['msg'][:100]}", w)
        name = Path(res["outdir"]).name
        if (batch / name).exists():
            pkgs.append(name)
            owner[name] = (label, j)
        ev.seen(("C11", tuple(sorted(feats))[:12]))
    # ---- (a) mypy in two parallel halves
    if not os.path.exists(MYPY):
        vd.inconclusive_if(True, "mypy is not installed in /venv")
        return run.finish()
    import concurrent.futures as cf
    halves = [pkgs[0::3], pkgs[1::3], pkgs[2::3]]
    with cf.ThreadPoolExecutor(3) as ex:
        futs = [ex.submit(run_mypy, batch, h, str(i)) for i, h in enumerate(halves) if h]
        outs = [f.result() for f in futs]
    n_err = 0
    for rc, out, err, dt in outs:
        ev.count("mypy_runs")
        ev.extra.setdefault("mypy_wall_s", []).append(round(dt, 1))
        if rc not in (0, 1):
            vd.inconclusive_if(True, f"mypy failed to run (exit {rc}): {err[-300:]}")
        for line in out.splitlines():
            m = re.match(r"^([^:]+):(\d+): error: (.*?)(?:  \[([\w-]+)\])?$", line)
            if not m:
                continue
            n_err += 1
            rel, ln, msg, code = m.group(1), int(m.group(2)), m.group(3), m.group(4) or "misc"
            pkg = rel.split("/")[0]
            label, j = owner.get(pkg, ("?", None))
            src_line = ""
            try:
                src_line = (batch / rel).read_text().splitlines()[ln - 1].strip()[:160]
            except Exception:
                pass
            stem = rel.rsplit("/", 1)[-1][:-3]
            # mechanisms recognisable from the offending line (each a listed finding with its own witness)
            if "/models/" in rel:
                mech_ = None
                if code == "assignment" and re.search(r"= (self\.\w+\.isoformat\(\)\.encode\(\)|str\(self\.\w+\)(\.encode\(\))?)$", src_line) and "bytes" in msg:
                    mech_ = "multipart_union_member_not_a_tuple"
                elif pkg in capture_pkgs and any(re.search(r"\b" + re.escape(n_) + r"\b", src_line + " " + msg) for n_ in capture_pkgs[pkg]):
                    mech_ = "derived_local_captures_property"
                elif code == "no-redef" and re.match(r"^\w+_item: ", src_line):
                    mech_ = "list_item_variable_annotated_twice"
                elif code == "arg-type" and re.search(r"\.append\(\w+_item\)$", src_line) and "Literal[" in msg:
                    mech_ = "nested_list_of_nullable_const_items"
                if mech_:
                    vd.violation(f"mypy:{mech_}", f"{label}: {rel}:{ln}: {msg} | {src_line}", {"doc": j["doc"] if j else None, "cfg": j.get("cfg") if j else None, "mypy": line})
                    continue
            if rel in param_local_modules:
                # C18's finding seen by the type checker: a parameter named like a local the endpoint template assigns (kwargs = _get_kwargs(...))
                vd.violation("mypy:parameter_named_like_template_local", f"{label}: {rel}:{ln}: {msg} | {src_line}", {"doc": j["doc"] if j else None, "cfg": j.get("cfg") if j else None, "mypy": line})
                continue
            if pkg in shadow_pkgs:
                vd.violation("mypy:class_shadows_template_import", f"{label}: {rel}:{ln}: {msg} | {src_line}", {"doc": j["doc"] if j else None, "cfg": j.get("cfg") if j else None, "mypy": line})
                continue
            if "/models/" in rel and re.search(rf"^(return {re.escape(stem)}$|{re.escape(stem)} = cls\(|{re.escape(stem)}\.additional_properties)", src_line):
                vd.violation("mypy:model_local_named_after_module_shadows_property", f"{label}: {rel}:{ln}: {msg} | {src_line}", {"doc": j["doc"] if j else None, "cfg": j.get("cfg") if j else None, "mypy": line})
                continue
            if "/api/" in rel and re.search(r"\b_(json|data|files|content)_body\b", src_line) and code in ("attr-defined", "arg-type", "assignment", "union-attr", "index", "call-overload", "no-redef"):
                vd.violation("mypy:multi_body_destination_variable_reused", f"{label}: {rel}:{ln}: {msg} | {src_line}", {"doc": j["doc"] if j else None, "cfg": j.get("cfg") if j else None, "mypy": line})
                continue
            kind_ = artefact_kind(rel.split('/', 1)[1] if '/' in rel else rel)
            mech2 = None
            if code == "assignment" and kind_ == "endpoint" and re.search(r"^cookies\[", src_line):
                mech2 = "cookies_dict_value_type_inferred_from_first_parameter"
            elif code == "union-attr" and kind_ == "endpoint" and re.search(r"_item(_data)?\.(to_dict|isoformat)\(\)", src_line) and "has no attribute" in msg:
                mech2 = "list_body_union_item_transform"
            elif code == "valid-type" and kind_ == "model" and "Literal[" in src_line + msg:
                mech2 = "float_const_literal"
            elif code == "redundant-cast" and kind_ == "model" and src_line.startswith("return cast("):
                mech2 = "literal_enum_redundant_cast"
            elif code == "redundant-cast" and re.search(r"= cast\(list\[Any\], data\)$", src_line):
                mech2 = "union_member_list_of_any_redundant_cast"
            key_ = f"mypy:{mech2}" if mech2 else f"mypy:{code}:{kind_}"
            vd.violation(key_, f"{label}: {rel}:{ln}: {msg} | {src_line}", {"doc": j["doc"] if j else None, "cfg": j.get("cfg") if j else None, "mypy": line})
    # (d) the type checker accepts a module whose function bodies use a name that is unbound at run time (the annotation side and the run-time side disagree)
    files_with_errors = set()
    for rc, out, err, dt in outs:
        for line in out.splitlines():
            m = re.match(r"^([^:]+):(\d+): error: ", line)
            if m:
                files_with_errors.add(m.group(1))
    for pkg, entries in unbound.items():
        if pkg in shadow_pkgs or pkg not in pkgs:
            continue
        for module, what, label_, j_ in entries:
            rel = module.replace(".", "/") + ".py"
            ev.count("runtime_unbound_names_compared_with_mypy")
            if rel not in files_with_errors:
                vd.violation(f"typechecks_but_name_unbound_at_runtime:{artefact_kind(rel.split('/', 1)[1] if '/' in rel else rel)}", f"{label_}: {rel}: {what} - mypy reports nothing for this module, at run time the name is not bound (imported for the type checker only)",
                             {"doc": j_["doc"], "cfg": j_.get("cfg"), "module": module, "what": what})
                break
    ev.count("packages_type_checked", len(pkgs))
    ev.count("mypy_errors", n_err)
    ev.sample({"packages": pkgs[:5], "mypy_errors": n_err, "flags": ["disallow_any_generics", "disallow_untyped_defs", "warn_redundant_casts", "strict_equality"]})
    shutil.rmtree(batch, ignore_errors=True)
    vd.inconclusive_if(len(pkgs) < 10, "fewer than 10 packages reached mypy")
    vd.inconclusive_if(ev.counters.get("decoded_values_checked", 0) < 500, "too few runtime conformance observations")
    return run.finish()


if __name__ == "__main__":
    main_wrapper(main)
