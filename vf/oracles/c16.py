"""C16 — each configuration option has exactly its documented effect (DESIGN.md section 8, C16).

Differential per option: tree(D, cfg) vs tree(D, cfg + option), plus behavioural equivalence through the sandbox where
the statement says wire behaviour is identical.
"""
from __future__ import annotations

import ast
import json
import re

from .. import docs, expect
from ..common import VERIF, rng, scratch, seed, tier
from ..harness import Run, actions_results, artefact_kind, main_wrapper
from .c12 import first_text_diff, tree_diff


def strip_docstrings(src: str) -> str:
    try:
        t = ast.parse(src)
    except SyntaxError:
        return src
    for node in ast.walk(t):
        body = getattr(node, "body", None)
        if isinstance(body, list):
            node.body = [b for b in body if not (isinstance(b, ast.Expr) and isinstance(getattr(b, "value", None), ast.Constant) and isinstance(b.value.value, str))] or [ast.Pass()]
    return ast.dump(t)


def shape(src: str) -> str:
    """AST dump with identifiers alpha-renamed by first occurrence and string constants blanked."""
    try:
        t = ast.parse(src)
    except SyntaxError as ex:
        return f"<syntax error {ex.msg}>"
    ren = {}

    def nm(x):
        return ren.setdefault(x, f"v{len(ren)}")
    for node in ast.walk(t):
        for f in ("id", "arg", "attr", "name", "module", "asname"):
            v = getattr(node, f, None)
            if isinstance(v, str):
                setattr(node, f, nm(v))
        if isinstance(node, ast.alias):
            node.name = nm(node.name)
        if isinstance(node, ast.Constant) and isinstance(node.value, str):
            node.value = "§"
        if isinstance(node, ast.keyword) and node.arg:
            node.arg = nm(node.arg)
    return ast.dump(t)


def pkg_files(tree: dict, pkg: str | None):
    """Package .py files keyed by path relative to the package directory."""
    if pkg is None:
        return {k: v for k, v in tree.items()}
    pre = pkg + "/"
    return {k[len(pre):]: v for k, v in tree.items() if k.startswith(pre)}


def main() -> int:
    quick = tier() == "quick"
    run = Run("C16")
    r = rng("C16", seed())
    ev, vd = run.ev, run.vd
    ev.rule = ("per document (random + matrix) and per option a pair (cfg, cfg+option) is generated and compared with the option's own oracle: name/version overrides (package files identical, metadata identical after substituting names back), "
               "class_overrides (files not mentioning the class identical, same number of modules, same decode/encode behaviour), field_prefix, use_path_prefixes_for_title_model_names and literal_enums (behaviour identical), "
               "docstrings_on_attributes (AST without docstrings identical), generate_all_tags (identical module under every tag, rest identical), content_type_overrides (module as for the mapped-to type, sent as itself), "
               "meta flavour (package directory identical), file_encoding (decoded text identical), custom_template_path (only files of the overridden template differ), post_hooks ([] vs ['true'] identical, marker hook runs in the project directory, failing hook => ERROR). "
               "distinct = distinct (option, document feature set) signatures")
    n = 40 if quick else 500
    basedocs = []
    for i in range(n):
        d, feats = docs.random_doc(("C16", seed(), i), n_ops=r.randint(2, 6))
        d["info"]["title"] = "Option Test API"
        basedocs.append((f"random:{i}", d, feats))
    for l, d in docs.matrix_docs()[:: (10 if quick else 2)]:
        d = docs.clone(d)
        d["info"]["title"] = "Option Test API"
        basedocs.append((f"matrix:{l}", d, {"matrix", l}))
    for l, d in docs.union_model_docs()[:: (2 if quick else 1)]:
        d = docs.clone(d)
        d["info"]["title"] = "Option Test API"
        items_ = list(d["components"]["schemas"].items())
        holders_ = [kv for kv in items_ if kv[0].startswith("H")]
        # the first six models get instances: rotate through the union holders, those with integer enums first
        holders_.sort(key=lambda kv: (0 if "Ie" in kv[0] else 1))
        rot_ = (len(basedocs) * 3) % max(1, len(holders_))
        first_ = (holders_[:3] + holders_[3:][rot_:rot_ + 3])[:6]
        d["components"]["schemas"] = dict(first_ + [kv for kv in items_ if kv not in first_])
        basedocs.append((f"{l}", d, {"union_models", l}))
    for l, d in docs.rare_feature_docs()[:: (2 if quick else 1)]:
        d = docs.clone(d)
        d["info"]["title"] = "Option Test API"
        basedocs.append((l, d, {"rare", l}))
    # custom template directory: override one small template
    tdir = scratch() / "custom_templates"
    tdir.mkdir(parents=True, exist_ok=True)
    (tdir / "endpoint_init.py.jinja").write_text('""" CUSTOM ENDPOINT INIT for {{ endpoint_collection.tag }}: M\u00e9thodes f\u00fcr d\u00e9j\u00e0-vu \u00a9 """\n', encoding="utf-8")
    jobs, info = [], {}
    for bi, (label, d, feats) in enumerate(basedocs):
        comps = d["components"]["schemas"]

        def add(option, variant, doc=None, **kw):
            j = run.job(doc if doc is not None else d, want=["tree", "manifest"], **kw)
            # unique import name per generated package (the sandbox interpreter is shared between jobs of a worker)
            j["name"] = f"otc{j['id']}"
            info[j["id"]] = (bi, option, variant)
            jobs.append(j)
            return j
        insts = {}
        tok = docs.Tok(r)
        for cname, sch in list(comps.items())[:6]:
            if docs.is_objectish(sch, comps):
                try:
                    insts[f"/components/schemas/{cname}"] = [[l, v, f] for l, v, f in docs.object_instances(sch, comps, tok, n_rand=2)][:8]
                except (docs.Bottomless, RecursionError):
                    pass
        plan = {"fn": "models_given", "args": {"instances": insts}}
        add("base", "none", meta="none", plan=plan, sandbox=[{"a": "import_all"}])
        add("base", "poetry", meta="poetry")
        # ---- renaming options
        add("names", "override", meta="poetry", cfg={"project_name_override": "my-proj-zq", "package_name_override": "my_pkg_zq", "package_version_override": "9.8.7"})
        model_keys = [k for k, v in comps.items() if docs.is_objectish(v, comps)]
        ovr_keys = model_keys + [k for k, v in comps.items() if isinstance(v, dict) and "enum" in v and v.get("type") in ("string", "integer")]
        if ovr_keys:
            mk = ovr_keys[bi % len(ovr_keys)]
            add("class_overrides", mk, meta="none", plan=plan, cfg={"class_overrides": {"__CLASS__": {"class_name": "RenamedZq", "module_name": "renamed_zq_mod"}}}, _override_key=mk)
        # ---- combinations of options (rotating): the combined tree imports completely and behaves as the plain one
        enum_keys = [k for k, v in comps.items() if isinstance(v, dict) and "enum" in v and v.get("type") in ("string", "integer")]
        ovr = {"class_overrides": {"__CLASS__": {"class_name": "RenamedZq", "module_name": "renamed_zq_mod"}}}
        combos = [
            ("class_overrides+literal_enums", dict(ovr, literal_enums=True), (enum_keys or model_keys)),
            ("field_prefix+literal_enums+docstrings", {"field_prefix": "attr_", "literal_enums": True, "docstrings_on_attributes": True}, None),
            ("class_overrides+generate_all_tags+no_path_prefixes", dict(ovr, generate_all_tags=True, use_path_prefixes_for_title_model_names=False), (model_keys + enum_keys)),
            ("literal_enums+generate_all_tags", {"literal_enums": True, "generate_all_tags": True}, None),
            ("class_overrides+field_prefix+docstrings", dict(ovr, field_prefix="attr_", docstrings_on_attributes=True), (enum_keys + model_keys)),
        ]
        for ci_ in range(2 if quick else 5):
            cname_, ccfg, keys = combos[(bi + ci_ * 2) % len(combos)]
            if keys is not None and not keys:
                continue
            kw_ = {"_override_key": keys[bi % len(keys)]} if keys else {}
            add("combo", cname_, meta="none", plan=plan, cfg=ccfg, sandbox=[{"a": "import_all"}], **kw_)
        add("field_prefix", "attr_", meta="none", plan=plan, cfg={"field_prefix": "attr_"})
        add("use_path_prefixes", "false", meta="none", plan=plan, cfg={"use_path_prefixes_for_title_model_names": False})
        add("literal_enums", "true", meta="none", plan=plan, cfg={"literal_enums": True})
        add("docstrings_on_attributes", "true", meta="none", cfg={"docstrings_on_attributes": True})
        add("generate_all_tags", "true", meta="none", cfg={"generate_all_tags": True})
        for meta in ("setup", "pdm"):
            add("meta", meta, meta=meta)
        add("file_encoding", "utf-16", meta="none", file_encoding="utf-16")
        add("custom_template_path", "endpoint_init", meta="none", custom_template_path=str(tdir))
        if bi % 4 == 1:
            # the command line route with a configuration *file* holding non-ASCII text: --file-encoding is about the files written, not about how the configuration is read
            ccfg_ = {"project_name_override": "caf\u00e9-client-zq", "package_name_override": "cafe_client_zq", "post_hooks": []}
            for fmt_ in ("json", "yaml"):
                add("cli_config_encoding", f"utf-8:{fmt_}", meta="poetry", via="cli", cfg=ccfg_, cfg_raw=True, cfg_fmt=fmt_)
                for enc_ in ("cp1252", "utf-16"):
                    add("cli_config_encoding", f"{enc_}:{fmt_}", meta="poetry", via="cli", cfg=ccfg_, cfg_raw=True, cfg_fmt=fmt_, file_encoding=enc_)
        if bi % 3 == 0:
            # template files are UTF-8 whatever encoding the output is written in
            add("custom_template+file_encoding", "cp1252", meta="none", custom_template_path=str(tdir), file_encoding="cp1252")
            add("custom_template+file_encoding", "utf-16", meta="none", custom_template_path=str(tdir), file_encoding="utf-16")
        add("post_hooks", "true", meta="none", cfg={"post_hooks": ["true"]})
        add("post_hooks", "marker", meta="poetry", cfg={"post_hooks": ["touch HOOK_RAN_ZQ"]})
        add("post_hooks", "failing", meta="none", cfg={"post_hooks": ["false"]})
        # ---- content_type_overrides: a fresh operation with an exotic media type
        dct = docs.clone(d)
        dct["paths"]["/zq-ct"] = {"post": {"operationId": "zq_ct_op", "requestBody": {"content": {"application/x-zq-thing": {"schema": {"type": "object", "properties": {"a": {"type": "string"}}}}}}, "responses": {"200": {"description": "ok", "content": {"application/x-zq-thing": {"schema": {"type": "string"}}}}}}}
        dmap = json.loads(json.dumps(dct).replace("application/x-zq-thing", "application/json"))
        add("content_type_overrides", "mapped", doc=dct, meta="none", cfg={"content_type_overrides": {"application/x-zq-thing": "application/json"}},
            sandbox=[{"a": "call", "module": "api.default.zq_ct_op", "variants": ["sync_detailed"], "args": {"body": {"$t": "model", "cls": "ZqCtOpBody", "v": {"a": "s-1"}}}, "client": {}, "response": {"status": 200, "headers": [["content-type", "application/x-zq-thing"]], "content": "InMtMiI="}}])
        add("content_type_overrides", "reference", doc=dmap, meta="none")
        if bi % 4 == 0:
            for target, bodyschema in (("multipart/form-data", {"type": "object", "properties": {"a": {"type": "string"}}}), ("application/x-www-form-urlencoded", {"type": "object", "properties": {"a": {"type": "string"}}}),
                                       ("application/octet-stream", {"type": "string", "format": "binary"})):
                dt = docs.clone(d)
                dt["paths"]["/zq-ct2"] = {"post": {"operationId": "zq_ct_two", "requestBody": {"content": {"application/vnd.zq.upload": {"schema": bodyschema}}}, "responses": {"200": {"description": "ok"}}}}
                arg = {"$t": "file", "v": "YWJj", "file_name": "f", "mime_type": "x/y"} if target.endswith("octet-stream") else {"$t": "model", "cls": "ZqCtTwoBody", "v": {"a": "s-1"}}
                add("content_type_overrides", "sent_as_itself:" + target, doc=dt, meta="none", cfg={"content_type_overrides": {"application/vnd.zq.upload": target}},
                    sandbox=[{"a": "call", "module": "api.default.zq_ct_two", "variants": ["sync_detailed"], "args": {"body": arg}, "client": {}, "response": {"status": 200}}])
                # ... and next to another request media type of the same operation (the dispatch branch of the overridden type sets its own Content-Type)
                if not target.endswith("octet-stream"):
                    for first_ in (True, False):
                        dm = docs.clone(d)
                        dm["components"]["schemas"]["ZqUp"] = {"type": "object", "properties": {"a": {"type": "string"}}, "required": ["a"]}
                        dm["components"]["schemas"]["ZqJs"] = {"type": "object", "properties": {"j": {"type": "integer"}}, "required": ["j"]}
                        pair_ = [("application/vnd.zq.upload", {"schema": {"$ref": "#/components/schemas/ZqUp"}}), ("application/json", {"schema": {"$ref": "#/components/schemas/ZqJs"}})]
                        dm["paths"]["/zq-ct2"] = {"post": {"operationId": "zq_ct_two", "requestBody": {"content": dict(pair_ if first_ else pair_[::-1])}, "responses": {"200": {"description": "ok"}}}}
                        add("content_type_overrides", "sent_as_itself:" + target, doc=dm, meta="none", cfg={"content_type_overrides": {"application/vnd.zq.upload": target}},
                            sandbox=[{"a": "call", "module": "api.default.zq_ct_two", "variants": ["sync_detailed"], "args": {"body": {"$t": "model", "cls": "ZqUp", "v": {"a": "s-1"}}}, "client": {}, "response": {"status": 200}}])
        if bi % 4 == 1:
            # multi-tag operations whose module names coincide across tags
            dg = docs.clone(d)
            okr = {"200": {"description": "ok"}}
            dg["paths"]["/zq-widgets"] = {"get": {"operationId": "listItems", "tags": ["zqwidgets", "zqinventory"], "responses": okr}}
            dg["paths"]["/zq-gadgets"] = {"get": {"operationId": "list_items", "tags": ["zqgadgets", "zqcatalog"], "responses": okr}}
            dg["paths"]["/zq-third"] = {"post": {"operationId": "list-items", "tags": ["zqthird", "zqwidgets2"], "responses": okr}}
            add("base_multitag", "none", doc=dg, meta="none")
            add("generate_all_tags", "multitag_collision", doc=dg, meta="none", cfg={"generate_all_tags": True})
    # class_overrides need the real class name: resolve after the base manifest is known -> two phases
    phase1 = [j for j in jobs if info[j["id"]][1] in ("base", "base_multitag")]
    res1 = dict(zip([j["id"] for j in phase1], run.map(phase1, timeout=300)))
    base = {}
    for j in phase1:
        bi, opt_, variant = info[j["id"]]
        base[(bi, variant if opt_ == "base" else "multitag")] = (j, res1[j["id"]])
    phase2 = []
    for j in jobs:
        bi, option, variant = info[j["id"]]
        if option in ("base", "base_multitag"):
            continue
        if "_override_key" in j:
            bres = base[(bi, "none")][1]
            ent = ((bres.get("manifest") or {}).get("refs") or {}).get(f"/components/schemas/{j.pop('_override_key')}")
            if not ent or not ent.get("cls"):
                continue
            j["cfg"] = dict(j["cfg"], class_overrides={ent["cls"]: {"class_name": "RenamedZq", "module_name": "renamed_zq_mod"}})
            if option == "class_overrides":
                info[j["id"]] = (bi, option, ent["cls"])
        j.pop("_override_key", None)
        phase2.append(j)
    res2 = dict(zip([j["id"] for j in phase2], run.map(phase2, timeout=300)))
    ct_ref = {}
    custom_ref = {}
    cli_ref = {}
    for j in phase2:
        bi, option, variant = info[j["id"]]
        if option == "content_type_overrides" and variant == "reference":
            ct_ref[bi] = res2[j["id"]]
        if option == "custom_template_path":
            custom_ref[bi] = res2[j["id"]]
        if option == "cli_config_encoding" and variant.startswith("utf-8:"):
            cli_ref[(bi, variant.split(":")[1])] = res2[j["id"]]
    for j in phase2:
        bi, option, variant = info[j["id"]]
        label, d, feats = basedocs[bi]
        res = res2[j["id"]]
        if res.get("_error"):
            continue
        if res.get("exc"):
            bres0 = base.get((bi, "none"), (None, {}))[1]
            if not bres0.get("exc") and not bres0.get("_error") and option != "post_hooks":
                vd.violation(f"{option}:generator_crashed", f"{label}: the generator crashed under {option}={variant} ({res['exc'].get('type')}: {res['exc'].get('msg', '')[:120]}) but not without it", {"doc": j["doc"], "option": option, "variant": variant, "cfg": j.get("cfg"), "exc": res["exc"]})
            continue
        bj, bres = base[(bi, "multitag" if variant == "multitag_collision" else ("poetry" if (option in ("names",) or (option == "post_hooks" and variant == "marker")) else "none"))]
        if bres.get("_error") or bres.get("exc") or not bres.get("accepted"):
            continue
        w = {"doc": j["doc"], "option": option, "variant": variant, "cfg": j.get("cfg"), "meta": j.get("meta")}
        bt, vt = bres["tree"], res.get("tree") or {}
        ev.count("option_pairs")

        def differ(a: dict, b: dict, what: str, allow=lambda rel: False):
            for dk, rel in tree_diff(a, b):
                if allow(rel):
                    continue
                vd.violation(f"{option}:{what}:{artefact_kind(rel)}:{dk}", f"{label}: {rel} ({dk}) under {option}={variant}: {first_text_diff(a.get(rel), b.get(rel))}", dict(w, file=rel))
                return True
            return False

        def behaviour_equal():
            A, B = actions_results(bres), actions_results(res)
            A = [(a, x) for a, x in A if a["a"] == "roundtrip"]
            B = [(a, x) for a, x in B if a["a"] == "roundtrip"]
            if len(A) != len(B):
                vd.violation(f"{option}:census_differs", f"{label}: {len(A)} vs {len(B)} round-trippable instances (a model disappeared or appeared)", w)
                return
            for (aa, xa), (ab, xb) in zip(A, B):
                if xa.get("action_exc") or xb.get("action_exc"):
                    ev.count("sandbox_action_failed")
                    continue
                ev.count("behaviour_roundtrips_compared")
                oa = ("exc", xa["exc"]["type"]) if xa.get("exc") else json.dumps(xa.get("e"), sort_keys=True)
                ob = ("exc", xb["exc"]["type"]) if xb.get("exc") else json.dumps(xb.get("e"), sort_keys=True)
                if oa != ob:
                    vd.violation(f"{option}:behaviour_differs", f"{label}: {aa['cls']} encodes {str(oa)[:100]} without and {str(ob)[:100]} with {option}={variant}", dict(w, value=aa["value"]))
                    return

        if option == "combo":
            ev.count("option_combinations")
            bi_, vi_ = actions_results(bres), actions_results(res)
            bim = next((x for a, x in bi_ if a["a"] == "import_all"), None)
            vim = next((x for a, x in vi_ if a["a"] == "import_all"), None)
            if bim and vim and not bim.get("action_exc") and not vim.get("action_exc") and not (bim.get("errors") or bim.get("unresolved") or bim.get("syntax")):
                for e in (vim.get("syntax") or []):
                    vd.violation(f"combo:{variant}:syntax_error", f"{label}: {e['module']}: {e['msg']}", w)
                for e in (vim.get("errors") or []):
                    vd.violation(f"combo:{variant}:import_error", f"{label}: {e['module']}: {e['exc']['type']}: {e['exc']['msg'][:200]}", w)
                for u in (vim.get("unresolved") or []):
                    vd.violation(f"combo:{variant}:unresolved_name", f"{label}: {u['module']}:{u['line']}: {u['what']}", w)
            behaviour_equal()
        elif option == "names":
            pb, pv = pkg_files(bt, "option_test_api_client/option_test_api_client".split("/")[1]), pkg_files(vt, "my_pkg_zq")
            if not pv:
                vd.violation("names:package_dir_missing", f"{label}: package directory my_pkg_zq not found: {sorted(vt)[:5]}", w)
            else:
                differ(pb, pv, "package_files")
            for meta_file in ("pyproject.toml", "README.md", ".gitignore"):
                a, b = bt.get(meta_file), vt.get(meta_file)
                if a is None or b is None:
                    continue
                b2 = b.replace("my-proj-zq", "option-test-api-client").replace("my_pkg_zq", "option_test_api_client").replace("9.8.7", d["info"]["version"])
                if a != b2:
                    vd.violation(f"names:metadata_differs:{meta_file}", f"{label}: {meta_file} differs beyond the names: {first_text_diff(a, b2)}", w)
            if 'version = "9.8.7"' not in (vt.get("pyproject.toml") or "") or 'name = "my-proj-zq"' not in (vt.get("pyproject.toml") or ""):
                vd.violation("names:override_not_applied", f"{label}: pyproject.toml lacks the overridden name/version", w)
        elif option == "class_overrides":
            old = variant
            oldmod = next((m["module"] for c, m in list((bres["manifest"].get("models") or {}).items()) + list((bres["manifest"].get("enums") or {}).items()) if c == old), None)
            # inline child classes are named after their parent, so they (and whoever mentions them) are renamed as well
            mention = re.compile(r"\b(" + "|".join(re.escape(x) for x in (old, oldmod or old, "RenamedZq", "renamed_zq")) + r")")
            keep = lambda t: {k: v for k, v in t.items() if not mention.search(v if isinstance(v, str) else "") and not mention.search(k.rsplit("/", 1)[-1])}  # noqa: E731
            differ(keep(bt), keep(vt), "unrelated_files")
            if len([k for k in bt if k.startswith("models/")]) != len([k for k in vt if k.startswith("models/")]):
                vd.violation("class_overrides:census_differs", f"{label}: number of model modules changed", w)
            if "models/renamed_zq_mod.py" not in vt or "class RenamedZq" not in vt.get("models/renamed_zq_mod.py", ""):
                vd.violation("class_overrides:override_not_applied", f"{label}: models/renamed_zq_mod.py with class RenamedZq not generated for {old}", w)
            behaviour_equal()
        elif option == "field_prefix":
            needs = any(re.search(r"\bfield_\w", v) for k, v in bt.items() if isinstance(v, str) and k.endswith(".py"))
            if not needs:
                differ(bt, vt, "no_name_needs_prefix")
            else:
                ev.count("field_prefix_used")
                for rel in bt:
                    rel2 = rel if rel in vt else rel.replace("field_", "attr_")
                    if rel.endswith(".py") and rel2 in vt and shape(bt[rel]) != shape(vt[rel2]):
                        vd.violation("field_prefix:more_than_identifiers_changed", f"{label}: {rel} differs in AST shape under a different field_prefix", dict(w, file=rel))
                        break
            behaviour_equal()
        elif option in ("use_path_prefixes", "literal_enums"):
            behaviour_equal()
            if option == "use_path_prefixes" and '"title"' not in json.dumps(d["components"]) + json.dumps(d["paths"]):
                differ(bt, vt, "no_titled_inline_schema")
        elif option == "docstrings_on_attributes":
            for rel in sorted(set(bt) | set(vt)):
                if rel not in bt or rel not in vt:
                    vd.violation("docstrings_on_attributes:fileset", f"{label}: {rel} only on one side", dict(w, file=rel))
                    break
                if rel.endswith(".py") and strip_docstrings(bt[rel]) != strip_docstrings(vt[rel]):
                    vd.violation(f"docstrings_on_attributes:code_changed:{artefact_kind(rel)}", f"{label}: {rel} differs beyond docstrings", dict(w, file=rel))
                    break
        elif option == "generate_all_tags":
            generated = {(e["method"], e["path"]) for e in (bres.get("manifest") or {}).get("endpoints") or []}
            multi = [(m, p, op) for p, m, op, _ in docs.iter_ops(j["doc"]) if len(set(op.get("tags") or [])) > 1 and (m, p) in generated]
            differ(bt, vt, "files_outside_api", allow=lambda rel: rel.startswith("api/"))
            for rel, text in bt.items():
                if rel.startswith("api/") and vt.get(rel) != text:
                    vd.violation("generate_all_tags:first_tag_module_changed", f"{label}: {rel} changed", dict(w, file=rel))
                    break
            extra = [rel for rel in vt if rel not in bt and not rel.endswith("__init__.py")]
            for rel in extra:
                name = rel.rsplit("/", 1)[-1]
                twins = [k for k in bt if k.startswith("api/") and k.endswith("/" + name)]
                if not twins or all(bt[k] != vt[rel] for k in twins):
                    vd.violation("generate_all_tags:module_not_identical", f"{label}: {rel} is not identical to the module under the first tag", dict(w, file=rel))
                    break
            if multi and not extra:
                vd.violation("generate_all_tags:no_extra_modules", f"{label}: {len(multi)} operations have several tags but no additional module was generated", w)
            if multi:
                ev.count("multi_tag_operations", len(multi))
        elif option == "meta":
            pkgb = {k: v for k, v in bt.items()}
            pkgv = pkg_files(vt, "option_test_api_client")
            pkgv.pop("py.typed", None)
            differ(pkgb, pkgv, "package_files")
            expect_files = {"setup": {"setup.py", "pyproject.toml", "README.md", ".gitignore"}, "pdm": {"pyproject.toml", "README.md", ".gitignore"}}[variant]
            got = {k for k in vt if "/" not in k}
            if got != expect_files:
                vd.violation(f"meta:metadata_fileset:{variant}", f"{label}: metadata files {sorted(got)} expected {sorted(expect_files)}", w)
        elif option == "file_encoding":
            dec = {}
            for k, v in vt.items():
                if isinstance(v, dict) and "$b64" in v:
                    import base64
                    try:
                        dec[k] = base64.b64decode(v["$b64"]).decode("utf-16")
                    except UnicodeDecodeError:
                        dec[k] = "<undecodable>"
                else:
                    dec[k] = v
            differ(bt, dec, "decoded_text")
        elif option == "cli_config_encoding":
            enc_, fmt_ = variant.split(":")
            ref = cli_ref.get((bi, fmt_))
            if enc_ == "utf-8" or ref is None:
                continue
            ev.count("cli_config_encoding_pairs")
            if ref.get("exc") or not ref.get("tree"):
                continue
            if res.get("exc") or not vt or (res.get("cli_exit") not in (None, 0)) != (ref.get("cli_exit") not in (None, 0)):
                vd.violation(f"cli_config_encoding:outcome_differs:{enc_}:{fmt_}", f"{label}: --config <{fmt_} file with non-ASCII text> succeeds with the default encoding but with --file-encoding {enc_}: exit {res.get('cli_exit')} {res.get('exc') or (res.get('cli_stdout') or '')[-200:]}", w)
                continue
            import base64
            dec = {}
            for k, v in vt.items():
                try:
                    dec[k] = base64.b64decode(v["$b64"]).decode(enc_) if isinstance(v, dict) and "$b64" in v else (v.encode("utf-8").decode(enc_) if isinstance(v, str) else v)
                except UnicodeError:
                    dec[k] = "<undecodable>"
            differ(ref["tree"], dec, f"decoded_text:{enc_}:{fmt_}")
        elif option == "custom_template+file_encoding":
            ref = custom_ref.get(bi)
            if ref and not ref.get("exc") and ref.get("tree"):
                import base64
                dec = {}
                for k, v in vt.items():
                    if isinstance(v, dict) and "$b64" in v:
                        try:
                            dec[k] = base64.b64decode(v["$b64"]).decode(variant)
                        except UnicodeDecodeError:
                            dec[k] = "<undecodable>"
                    else:
                        # the tree reader hands over UTF-8-decodable files as text: go back to the bytes and read them as the encoding asked for
                        try:
                            dec[k] = v.encode("utf-8").decode(variant) if isinstance(v, str) else v
                        except UnicodeError:
                            dec[k] = "<undecodable>"
                ev.count("custom_template_encoding_pairs")
                if not vt:
                    vd.violation(f"custom_template+file_encoding:nothing_generated:{variant}", f"{label}: nothing generated with a custom template directory and --file-encoding {variant}: {[x['header'] for x in res.get('diags') or []][:2] or res.get('exc')}", w)
                else:
                    differ(ref["tree"], dec, f"decoded_text:{variant}")
        elif option == "custom_template_path":
            differ(bt, vt, "other_files", allow=lambda rel: re.fullmatch(r"api/[^/]+/__init__\.py", rel) is not None)
            if not any("CUSTOM ENDPOINT INIT" in (v if isinstance(v, str) else "") for k, v in vt.items() if re.fullmatch(r"api/[^/]+/__init__\.py", k)) and any(k.startswith("api/") and k.count("/") == 2 for k in vt):
                vd.violation("custom_template_path:not_applied", f"{label}: overridden template not used", w)
        elif option == "post_hooks":
            if variant == "true":
                differ(bt, vt, "noop_hook")
                if res.get("diags") != bres.get("diags"):
                    vd.violation("post_hooks:noop_hook_diagnostics", f"{label}: a no-op hook changed the diagnostics", w)
            elif variant == "marker":
                if "HOOK_RAN_ZQ" not in vt:
                    vd.violation("post_hooks:not_run_in_project_dir", f"{label}: marker file not created at the project root: {[k for k in vt if 'HOOK' in k]}", w)
                differ(bt, {k: v for k, v in vt.items() if k != "HOOK_RAN_ZQ"}, "marker_hook_other_files")
            elif variant == "failing":
                if not any(x["level"] == "ERROR" and "false failed" in x["header"] for x in res.get("diags") or []):
                    vd.violation("post_hooks:failing_hook_not_error", f"{label}: a failing hook did not yield an ERROR diagnostic: {[x['header'] for x in res.get('diags') or []][:3]}", w)
        elif option == "content_type_overrides" and variant.startswith("sent_as_itself:"):
            sb = (res.get("sandbox") or {}).get("results") or []
            if not sb or sb[0].get("action_exc"):
                vd.violation("content_type_overrides:module_missing", f"{label}: operation with a media type overridden to {variant.split(':', 1)[1]} not generated / not importable ({[x['detail'] for x in res.get('diags') or []][:1]})", w)
            else:
                vr = sb[0].get("sync_detailed") or {}
                reqs = vr.get("requests") or []
                ev.count("content_type_override_calls")
                if not reqs:
                    vd.violation("content_type_overrides:call_failed", f"{label}: call raised {vr.get('exc')}", w)
                else:
                    ct = dict((k.lower(), v) for k, v in reqs[0]["headers"]).get("content-type")
                    if ct != "application/vnd.zq.upload":
                        vd.violation("content_type_overrides:sent_as_mapped_type", f"{label}: media type overridden to {variant.split(':', 1)[1]} was sent with Content-Type {ct!r} instead of itself", w)
        elif option == "content_type_overrides" and variant == "mapped":
            ref = ct_ref.get(bi)
            if not ref or ref.get("_error") or ref.get("exc"):
                continue
            a, b = (ref.get("tree") or {}).get("api/default/zq_ct_op.py"), vt.get("api/default/zq_ct_op.py")
            if a is None or b is None:
                vd.violation("content_type_overrides:module_missing", f"{label}: operation with overridden content type not generated ({[x['detail'] for x in res.get('diags') or []][:2]})", w)
            elif a.replace('"application/json"', '"application/x-zq-thing"') != b:
                vd.violation("content_type_overrides:module_differs", f"{label}: module differs from the mapped-to type beyond the Content-Type literal: {first_text_diff(a.replace(chr(34) + 'application/json' + chr(34), chr(34) + 'application/x-zq-thing' + chr(34)), b)}", w)
            differ({k: v for k, v in (ref.get("tree") or {}).items() if k != "api/default/zq_ct_op.py"}, {k: v for k, v in vt.items() if k != "api/default/zq_ct_op.py"}, "other_files")
            sb = (res.get("sandbox") or {}).get("results") or []
            if sb and not sb[0].get("action_exc"):
                vr = sb[0].get("sync_detailed") or {}
                reqs = vr.get("requests") or []
                ev.count("content_type_override_calls")
                if not reqs:
                    vd.violation("content_type_overrides:call_failed", f"{label}: call raised {vr.get('exc')}", w)
                else:
                    ct = dict((k.lower(), v) for k, v in reqs[0]["headers"]).get("content-type")
                    if ct != "application/x-zq-thing":
                        vd.violation("content_type_overrides:sent_as_mapped_type", f"{label}: request sent with Content-Type {ct!r} instead of the original media type", w)
                    parsed = (vr.get("result") or {}).get("parsed") or {}
                    if parsed.get("v") != "s-2":
                        vd.violation("content_type_overrides:response_not_parsed_as_mapped", f"{label}: response parsed to {parsed}", w)
        ev.seen(("C16", option, variant if option != "class_overrides" else "cls", tuple(sorted(feats))[:6]))
        if len(ev.samples) < 4 and option in ("names", "generate_all_tags", "content_type_overrides", "class_overrides"):
            ev.sample({"document": label, "option": option, "variant": variant, "files_compared": len(vt)})
    vd.inconclusive_if(ev.counters.get("option_pairs", 0) < 300, "fewer than 300 option pairs compared")
    return run.finish()


if __name__ == "__main__":
    main_wrapper(main)
