"""C13 — declared defaults become equal Python defaults, bad defaults are rejected (DESIGN.md section 8, C13).

Reference model R-DEFAULT: per property kind x JSON value offered as default: must-accept(typed value) /
coercible(typed value; accepted => must equal the coercion, rejected-with-diagnostic is fine too) / must-reject /
don't-care.  Observations: K() constructed without the argument (attribute state + to_dict), endpoint signature default
and the value transmitted when the argument is omitted; for rejections: a diagnostic, the owner absent, the default's
text absent from every generated file.
"""
from __future__ import annotations

import datetime
import json
import math
import uuid

from .. import docs, expect
from ..common import rng, seed, tier
from ..harness import Run, actions_results, main_wrapper

U1 = "00000000-0000-4000-8000-0000000000aa"
VALUES = ["zqa", "", "x y", 'zq"r', "zq'it", "zq\\back", "2020-01-02", "2020-01-02T03:04:05+00:00", "2020-13-45", "zq-not-a-date", U1, "zqnope", 0, 1, -5, 2, 2.5, 3.0, 1e999, -1e999, "4", "4.5", "inf", "-inf", "nan", "NaN", "Infinity",
          True, False, "true", "True", "false", "yes", [], ["zqx"], {}, {"zqk": 1}, "b", "B", 3, 2**40, 1e-7, 1.0, 0.0]

KINDS = {
    "string": {"type": "string"}, "date": {"type": "string", "format": "date"}, "datetime": {"type": "string", "format": "date-time"}, "uuid": {"type": "string", "format": "uuid"},
    "integer": {"type": "integer"}, "number": {"type": "number"}, "boolean": {"type": "boolean"},
    "enum_str": {"type": "string", "enum": ["zqa", "b"]}, "enum_int": {"type": "integer", "enum": [1, 2]}, "const": {"const": "zqa"}, "const_int": {"const": 2}, "const_one": {"const": 1}, "const_true": {"const": True}, "const_zero": {"const": 0},
    "union": {"oneOf": [{"type": "integer"}, {"type": "boolean"}]}, "union_date_int": {"anyOf": [{"type": "string", "format": "date"}, {"type": "integer"}]}, "any": {},
}


# a valid default of each kind for the *earlier, untyped* declaration of route allof_any_base
BASE_DEFAULT = {"string": "zqbase", "date": "1999-09-09", "datetime": "1999-09-09T09:09:09+00:00", "uuid": "00000000-0000-4000-8000-0000000000bb", "integer": 77, "number": 7.75, "boolean": True,
                "enum_str": "b", "enum_int": 2, "union": 77}


def is_num(v):
    return isinstance(v, (int, float)) and not isinstance(v, bool)


def finite(v):
    return is_num(v) and (isinstance(v, int) or math.isfinite(v))


def parse_float(s):
    try:
        return float(s)
    except ValueError:
        return None


def classify(kind: str, v):
    """-> (class, typed) with class in accept|coerce|reject|dontcare and typed = (python type tag, comparable value)."""
    if kind == "string":
        if isinstance(v, str):
            return "accept", ("str", v)
        if isinstance(v, (list, dict)):
            return "reject", None
        return "dontcare", None  # any scalar for string: pinned as intended coercion
    if kind == "date":
        if isinstance(v, str):
            try:
                datetime.date.fromisoformat(v)
                return "accept", ("date", v)
            except ValueError:
                pass
            try:
                d = datetime.datetime.fromisoformat(v)
                return "coerce", ("date", d.date().isoformat())
            except ValueError:
                return "reject", None
        return "reject", None
    if kind == "datetime":
        if isinstance(v, str):
            try:
                d = datetime.datetime.fromisoformat(v)
                if "T" in v:
                    return "accept", ("datetime", d.isoformat())
                return "coerce", ("datetime", d.isoformat())
            except ValueError:
                return "reject", None
        return "reject", None
    if kind == "uuid":
        if isinstance(v, str):
            try:
                return "accept", ("UUID", str(uuid.UUID(v)))
            except ValueError:
                return "reject", None
        return "reject", None
    if kind == "integer":
        if isinstance(v, bool):
            return "reject", None
        if isinstance(v, int):
            return "accept", ("int", v)
        if isinstance(v, float):
            return ("coerce", ("int", int(v))) if math.isfinite(v) and v == int(v) else ("reject", None)
        if isinstance(v, str):
            f = parse_float(v)
            return ("coerce", ("int", int(f))) if f is not None and math.isfinite(f) and f == int(f) else ("reject", None)
        return "reject", None
    if kind == "number":
        if isinstance(v, bool):
            return "reject", None
        if is_num(v):
            return ("accept", ("float", float(v))) if finite(v) else ("reject", None)
        if isinstance(v, str):
            f = parse_float(v)
            return ("coerce", ("float", f)) if f is not None and math.isfinite(f) else ("reject", None)
        return "reject", None
    if kind == "boolean":
        if isinstance(v, bool):
            return "accept", ("bool", v)
        if isinstance(v, str) and v.lower() in ("true", "false"):
            return "coerce", ("bool", v.lower() == "true")
        return "reject", None
    if kind == "enum_str":
        return ("accept", ("enum", v)) if isinstance(v, str) and v in ("zqa", "b") else ("reject", None)
    if kind == "enum_int":
        return ("accept", ("enum", v)) if isinstance(v, int) and not isinstance(v, bool) and v in (1, 2) else ("reject", None)
    if kind == "const":
        return ("accept", ("str", "zqa")) if v == "zqa" and isinstance(v, str) else ("reject", None)
    if kind == "const_int":
        return ("accept", ("int", 2)) if v == 2 and isinstance(v, int) and not isinstance(v, bool) else ("reject", None)
    if kind in ("const_one", "const_zero"):
        c = 1 if kind == "const_one" else 0
        if isinstance(v, float) and v == c:
            return "dontcare", None  # 1.0 for the integer const 1: JSON-equal numbers
        return ("accept", ("int", c)) if type(v) is int and v == c else ("reject", None)
    if kind == "const_true":
        return ("accept", ("bool", True)) if v is True else ("reject", None)
    if kind == "union":  # integer | boolean
        if isinstance(v, bool):
            return "accept", ("bool", v)
        if isinstance(v, int):
            return "accept", ("int", v)
        c, t = classify("integer", v)
        if c == "coerce":
            return c, t
        c, t = classify("boolean", v)
        if c == "coerce":
            return c, t
        return "reject", None
    if kind == "union_date_int":
        c, t = classify("date", v)
        if c in ("accept", "coerce"):
            return c, t
        return classify("integer", v)
    if kind == "any":
        if isinstance(v, float) and not math.isfinite(v):
            return "reject", None
        if isinstance(v, str):
            return "accept", ("str", v)
        return "dontcare", None
    raise KeyError(kind)


def untag(d):
    """(python type tag, comparable value) of a sandbox value description."""
    if d is None:
        return None
    t = d.get("t")
    if t == "enum":
        return ("enum", d["v"].get("v"))
    if t in ("str", "int", "bool", "date", "datetime", "UUID"):
        return (t, d.get("v"))
    if t == "float":
        return ("float", d.get("v"))
    if t == "Unset":
        return ("Unset", None)
    if t == "None":
        return ("None", None)
    return (t, json.dumps(d.get("v"), sort_keys=True, default=str))


def same_typed(got, want, literal_enums: bool) -> bool:
    if got is None:
        return False
    gt, gv = got
    wt, wv = want
    if wt == "enum":
        if literal_enums:
            return gv == wv and gt in ("str", "int")
        return gt == "enum" and gv == wv
    if wt == "float":
        return gt in ("float", "int") and gv == wv and (gt == "float" or float(gv) == wv)
    if wt == "datetime":
        try:
            return gt == "datetime" and datetime.datetime.fromisoformat(gv) == datetime.datetime.fromisoformat(wv)
        except Exception:
            return False
    return gt == wt and gv == wv


def wire_json(typed):
    t, v = typed
    return v


def main() -> int:
    quick = tier() == "quick"
    run = Run("C13")
    ev, vd = run.ev, run.vd
    ev.rule = (f"{len(KINDS)} property kinds x {len(VALUES)} JSON values offered as default x routes {{direct model property, $ref + sibling default, allOf-overridden default, query / header / cookie parameter}} x both enum styles; "
               "one model / operation per (kind, value) so that a rejection stays local; oracle R-DEFAULT (accept => equal typed Python default, same wire form when omitted; reject => diagnostic, owner absent, text absent; "
               "coercible => either). distinct = distinct (kind, value class, route, outcome class, style) signatures")
    ev.assumptions = ["`default` on array / object properties is outside the property's kind list", "any scalar offered as default of a plain string is an intended coercion (don't-care), list / object defaults on a string must be rejected"]
    jobs, info = [], {}
    for le in (False, True):
        for kind, schema, nonfinite in [(k, s_, nf) for k, s_ in KINDS.items() for nf in ((False, True) if k == "any" else (None,))]:
            comps, cases, paths = {}, {}, {}
            for vi, v in enumerate(VALUES):
                if nonfinite is not None and (isinstance(v, float) and not math.isfinite(v)) != nonfinite:
                    continue
                for route in ("direct", "ref", "ref_nullable", "allof", "allof_any_base", "shared_enum_name", "query", "query_ref_nullable", "header", "cookie"):
                    if route in ("header",) and kind not in ("string", "integer", "number", "boolean", "enum_str", "enum_int"):
                        continue
                    if route == "cookie" and kind not in ("string", "enum_str"):
                        continue
                    if route in ("query", "header", "cookie") and vi % 2 and quick:
                        continue
                    if route == "shared_enum_name" and kind not in ("enum_str", "enum_int"):
                        continue
                    if route == "allof_any_base" and (kind not in BASE_DEFAULT or BASE_DEFAULT[kind] == v or (quick and vi % 2 == 0)):
                        continue
                    if route in ("ref_nullable", "query_ref_nullable") and (kind in ("any", "union", "union_date_int") or kind.startswith("const") or (quick and vi % 2)):
                        continue
                    key = f"K{vi}{ {'allof_any_base': 'Y', 'shared_enum_name': 'N', 'ref_nullable': 'L', 'query_ref_nullable': 'M'}.get(route, route[0].upper())}"
                    sch = dict(schema, default=v)
                    if route == "direct":
                        comps[key] = {"type": "object", "properties": {"p": sch}}
                    elif route == "ref":
                        if kind in ("any",):
                            continue
                        comps[key + "T"] = dict(schema)
                        comps[key] = {"type": "object", "properties": {"p": {"allOf": [{"$ref": f"#/components/schemas/{key}T"}], "default": v}}}
                    elif route == "ref_nullable":
                        # 3.0 spelling of a nullable reference with a default of its own
                        comps[key + "T"] = dict(schema)
                        comps[key] = {"type": "object", "properties": {"p": {"nullable": True, "allOf": [{"$ref": f"#/components/schemas/{key}T"}], "default": v}}}
                    elif route == "query_ref_nullable":
                        comps[key + "T"] = dict(schema)
                        paths[f"/{key.lower()}"] = {"get": {"operationId": f"op_{key.lower()}", "parameters": [{"name": "p", "in": "query", "schema": {"nullable": True, "allOf": [{"$ref": f"#/components/schemas/{key}T"}], "default": v}}], "responses": {"200": {"description": "ok"}}}}
                    elif route == "allof_any_base":
                        # declared first without a type but with another default; the later, typed declaration decides
                        comps[key + "B"] = {"type": "object", "properties": {"p": {"description": "untyped first", "default": BASE_DEFAULT[kind]}}}
                        comps[key] = {"allOf": [{"$ref": f"#/components/schemas/{key}B"}, {"type": "object", "properties": {"p": sch}}]}
                    elif route == "shared_enum_name":
                        # a component enum whose name equals the class name derived for the inline property (same values, no default
                        # of its own), and a sibling property sharing a title: each declaration keeps its own default
                        comps[key + "P"] = dict(schema)
                        other = [x for x in schema["enum"] if x != v] or schema["enum"]
                        # (... and later siblings that declare none: an earlier declaration's default must not reach them)
                        comps[key] = {"type": "object", "properties": {"p": sch, "q": dict(schema, title=f"T{key}", default=other[0]), "r": dict(schema, title=f"T{key}", default=schema["enum"][0]),
                                                                        "s": dict(schema, title=f"T{key}"), "t": dict(schema)}}
                        comps[key + "Z"] = {"type": "object", "properties": {"p": dict(schema), "u": dict(schema, title=f"T{key}")}}
                    elif route == "allof":
                        comps[key + "B"] = {"type": "object", "properties": {"p": dict(schema)}}
                        comps[key] = {"allOf": [{"$ref": f"#/components/schemas/{key}B"}, {"type": "object", "properties": {"p": sch}}]}
                    else:
                        paths[f"/{key.lower()}"] = {"get": {"operationId": f"op_{key.lower()}", "parameters": [{"name": "p", "in": route, "schema": sch}], "responses": {"200": {"description": "ok"}}}}
                    cases[key] = {"kind": kind, "value": v, "route": route, "vi": vi}
            d = docs.base_doc("3.1.0", "Defaults API")
            d["components"]["schemas"] = comps
            d["paths"] = paths
            j = run.job(d, want=["manifest", "tree"], cfg={"literal_enums": le}, plan={"fn": "c13", "args": {"cases": {k: {"route": c["route"]} for k, c in cases.items()}}})
            info[j["id"]] = (kind, le, cases)
            jobs.append(j)
    rs = run.map(jobs, timeout=300)
    for j, res in zip(jobs, rs):
        kind, le, cases = info[j["id"]]
        style = "literal" if le else "enum"
        if res.get("_error") or (res.get("sandbox") or {}).get("_error") or res.get("plan_error"):
            ev.count("case_unusable")
            continue
        if res.get("exc"):
            ev.count("generator_crashed(C06)")
            vd.violation(f"generator_crashed:{kind}", f"a default of kind {kind} crashed the generator: {res['exc']['type']} at {res['exc']['site']}", {"doc": j["doc"], "exc": res["exc"]})
            continue
        diag_text = " ".join((d.get("header") or "") + " " + (d.get("detail") or "") + " " + (d.get("data") or "") for d in res.get("diags") or [])
        tree_text = "\n".join(v for k, v in (res.get("tree") or {}).items() if isinstance(v, str) and k.endswith(".py"))
        obs = {}
        for a, x in actions_results(res):
            obs.setdefault(a["x"]["case"], []).append((a, x))
        import_broken = any(x.get("action_exc") for a, x in actions_results(res))
        for key, case in cases.items():
            v, route = case["value"], case["route"]
            cls, typed = classify(kind, v)
            vclass = type(v).__name__ if not isinstance(v, str) else ("str:" + ("numeric" if parse_float(v) is not None else "date" if v[:4].isdigit() else "quote" if any(c in v for c in "\"'\\") else "plain"))
            w = {"kind": kind, "default": v, "route": route, "literal_enums": le, "schema": (j["doc"]["components"]["schemas"].get(key) or j["doc"]["paths"].get(f"/{key.lower()}"))}
            got = obs.get(key)
            generated = bool(got)
            ev.count("cases")
            if cls == "dontcare":
                ev.count("dontcare")
                continue
            if not generated:
                named = key in diag_text or f"op_{key.lower()}" in diag_text or f"/{key.lower()}" in diag_text
                if cls == "accept":
                    vd.violation(f"valid_default_rejected:{kind}:{route}", f"{kind} default {v!r} ({route}) is valid but the owner was not generated", w)
                else:
                    ev.count("rejected")
                    if not named:
                        vd.violation(f"rejected_without_diagnostic:{kind}:{route}", f"{kind} default {v!r} ({route}): owner absent but no diagnostic names it", w)
                    if isinstance(v, str) and v.startswith("zq") and v in tree_text:
                        vd.violation(f"rejected_default_text_emitted:{kind}:{route}", f"text of the rejected default {v!r} occurs in generated code", w)
                ev.seen(("C13", kind, vclass, route, "rejected", style))
                continue
            if cls == "reject":
                vd.violation(f"invalid_default_emitted:{kind}:{vclass.split(':')[0]}:{route}", f"{kind} default {v!r} ({route}) is not a valid value of the type but the owner was generated", w)
                continue
            if import_broken and any(x.get("action_exc") for a, x in got):
                vd.violation(f"default_breaks_import:{kind}:{route}", f"{kind} default {v!r} ({route}): generated package not importable: {[x['action_exc']['msg'][:100] for a, x in got if x.get('action_exc')][:1]}", w)
                continue
            for a, x in got:
                if a["a"] == "construct":
                    ev.count("constructions")
                    if x.get("exc"):
                        vd.violation(f"exception:{x['exc']['type']}:{kind}:{route}", f"{kind} default {v!r}: constructing without the argument raised {x['exc']['type']}: {x['exc']['msg'][:100]}", w)
                        continue
                    gotv = untag((x.get("attrs") or {}).get("p"))
                    if not same_typed(gotv, typed, le):
                        vd.violation(f"default_not_equal:{kind}:{cls}:{route}", f"{kind} default {v!r} ({route}): attribute is {gotv} expected {typed}", w)
                    if route == "shared_enum_name":
                        for sib_ in ("s", "t"):
                            ev.count("undeclared_default_siblings")
                            if sib_ in (x.get("e") or {}):
                                vd.violation(f"undeclared_default_appears:{kind}:{route}", f"{kind}: sibling property {sib_!r} declares no default but the omitted argument encodes as {(x.get('e') or {}).get(sib_)!r} (an earlier declaration of the same enum class has a default)", w)
                    enc = (x.get("e") or {}).get("p", "<absent>")
                    if not expect.jeq(enc, wire_json(typed)) and not (typed[0] == "datetime" and isinstance(enc, str) and same_typed(("datetime", enc), typed, le)):
                        vd.violation(f"default_encodes_differently:{kind}:{cls}:{route}", f"{kind} default {v!r} ({route}): omitted argument encodes as {enc!r} expected {wire_json(typed)!r}", w)
                elif a["a"] == "endpoint_info":
                    ev.count("signatures")
                    sd = (x.get("sync_detailed") or {}).get("params") or []
                    p = next((q for q in sd if q["name"] not in ("client",)), None)
                    if not p or not p["has_default"]:
                        vd.violation(f"signature_default_missing:{kind}:{route}", f"{kind} default {v!r} ({route}): parameter has no default in the signature", w)
                    elif not same_typed(untag(p["default"]), typed, le):
                        vd.violation(f"default_not_equal:{kind}:{cls}:{route}", f"{kind} default {v!r} ({route}): signature default is {untag(p['default'])} expected {typed}", w)
                elif a["a"] == "call":
                    vr = x.get("sync_detailed") or {}
                    ev.count("calls_omitting_argument")
                    reqs = vr.get("requests") or []
                    if not reqs:
                        if route == "cookie" or (vr.get("exc") or {}).get("type") == "TypeError" and route in ("header",):
                            ev.count("call_failed_known_C03")
                            continue
                        vd.violation(f"exception:{(vr.get('exc') or {}).get('type')}:{kind}:{route}", f"{kind} default {v!r} ({route}): call omitting the argument raised {(vr.get('exc') or {}).get('msg', '')[:100]}", w)
                        continue
                    c = reqs[0]
                    if route in ("query", "query_ref_nullable"):
                        vals = [q[1] for q in c["query"] if q[0] == "p"]
                    elif route == "header":
                        vals = [h[1] for h in c["headers"] if h[0].lower() == "p"]
                    else:
                        vals = [piece.split("=", 1)[1] for h in c["headers"] if h[0].lower() == "cookie" for piece in h[1].split("; ") if piece.startswith("p=")]
                    wv = wire_json(typed)
                    if len(vals) != 1 or not (expect.spell_ok(wv, vals[0]) or (typed[0] == "datetime" and same_typed(("datetime", vals[0]), typed, le))):
                        vd.violation(f"default_not_transmitted:{kind}:{cls}:{route}", f"{kind} default {v!r} ({route}): omitted argument transmitted as {vals} expected {wv!r}", w)
            ev.seen(("C13", kind, vclass, route, cls, style))
            if len(ev.samples) < 4 and cls == "accept" and kind in ("date", "enum_str", "number") and route in ("direct", "query"):
                ev.sample({"kind": kind, "default": v, "route": route, "style": style, "observed": [(a["a"], (x.get("attrs") or {}).get("p") if a["a"] == "construct" else None) for a, x in got][:2]})
    # ---- valid defaults inside random documents (interplay with nullable / allOf / enum references / parameters of every location)
    rjobs, rinfo = [], {}
    for i in range(120 if quick else 2500):
        d, feats = docs.random_doc(("C13r", seed(), i), defaults=0.5, n_ops=None if i % 2 else 4)
        if '"default"' not in json.dumps(d):
            continue
        le = i % 3 == 2
        j = run.job(d, want=["manifest"], cfg={"literal_enums": le}, plan={"fn": "c13rand", "args": {"seed": seed() * 7919 + i}})
        rinfo[j["id"]] = (i, le, feats)
        rjobs.append(j)
    from ._ops import derived_local_capture, endpoint_local_capture
    for j, res in zip(rjobs, run.map(rjobs, timeout=300)):
        i, le, feats = rinfo[j["id"]]
        if res.get("_error") or (res.get("sandbox") or {}).get("_error") or res.get("plan_error") or res.get("exc") or not res.get("accepted"):
            ev.count("random_case_unusable")
            continue
        man = res.get("manifest") or {}
        capture = bool(derived_local_capture(man))
        ep_capture = endpoint_local_capture(man)
        dfeats = tuple(sorted(f for f in feats if f.startswith("default:")))
        for a, x in actions_results(res):
            if x.get("action_exc"):
                continue
            w = {"doc": j["doc"], "literal_enums": le, "action": {k: v for k, v in a.items() if k != "x"}}
            if a["a"] == "construct" and a["x"].get("expect_defaults"):
                ev.count("random_constructions")
                if x.get("exc"):
                    if not capture:
                        vd.violation(f"exception:{x['exc']['type']}:random_document", f"{a['cls']}: constructing with only the required arguments raised {x['exc']['type']}: {x['exc']['msg'][:120]}", w)
                    continue
                for pn, want in a["x"]["expect_defaults"].items():
                    ev.count("random_defaults_checked")
                    enc = (x.get("e") or {}).get(pn, "<absent>")
                    if not expect.jeq(enc, want):
                        kindk = "enum" if isinstance(want, str) and any(f == "default:enum" for f in dfeats) and False else type(want).__name__
                        vd.violation(f"default_encodes_differently:random_document:{kindk}", f"{a['cls']}.{pn}: declared default {want!r} but the omitted argument encodes as {enc!r}", dict(w, property=pn))
                ev.seen(("C13r", "model", dfeats, le))
            elif a["a"] == "call" and not ep_capture:
                xx = a["x"]
                defaulted = {(loc, u["name"]) for loc in ("query", "header", "cookie") for u in xx["unset"][loc] if u.get("has_default")}
                if not defaulted:
                    continue
                for variant, vr in x.items():
                    if vr.get("missing") or not vr.get("requests"):
                        continue
                    ev.count("random_calls_omitting_defaulted_argument")
                    for eff, det in expect.check_request(vr["requests"][0], xx):
                        loc = eff.split(":")[1] if ":" in eff else ""
                        if eff.startswith("missing:") and any(l == loc and repr(nm) in det for l, nm in defaulted):
                            vd.violation(f"default_not_transmitted:random_document:{loc}", f"{a['module']}.{variant}: {det}", dict(w, variant=variant))
                ev.seen(("C13r", "call", tuple(sorted(l for l, _ in defaulted)), le))
    vd.inconclusive_if(ev.counters.get("constructions", 0) < 200 or ev.counters.get("rejected", 0) < 200 or ev.counters.get("random_defaults_checked", 0) < 30, "too few default observations")
    return run.finish()


if __name__ == "__main__":
    main_wrapper(main)
