"""C07 — nothing in the document is dropped silently (DESIGN.md section 8, C07).

R-CENSUS over arbitrary (valid or partly invalid) documents: every operation (method, path) is matched by a generated
endpoint (recorded manifest) or by a diagnostic naming it; every object / enumeration component resolves to a class
that exists in models/ and in models.__all__, or a diagnostic names its reference path; the number of files in models/
and api/<tag>/ equals the number of classes / endpoints handed to the templates (an overwritten file is a silent drop);
two component keys never resolve to one class without a diagnostic; every documented response status and request media
type of a generated operation is handled or named in a warning.
"""
from __future__ import annotations

import re

from .. import docs, names
from ..common import rng, seed, tier
from ..harness import Run, main_wrapper
from ..plans import resolve_body, skeleton
from .c08 import BAD_SCHEMAS, insert_bad


def json_clone(x):
    import json as _j
    return _j.loads(_j.dumps(x))


def is_census_item(s: dict, comps: dict) -> str | None:
    if not isinstance(s, dict) or "$ref" in s:
        return None
    if isinstance(s.get("enum"), list) and any(v is not None for v in s["enum"]):
        return "enum"
    if docs.is_objectish(s, comps) and not (s.get("allOf") and len(s["allOf"]) == 1 and "$ref" in s["allOf"][0] and "properties" not in s):
        return "object"
    return None


def main() -> int:
    quick = tier() == "quick"
    run = Run("C07")
    r = rng("C07", seed())
    ev, vd = run.ev, run.vd
    ev.rule = ("random documents with 0-4 inserted broken / unsupported pieces (C08's bad pieces at 15 positions incl. dependants at distance 1-3), unsupported request / response media types, `default` / `2XX` / non-numeric statuses, "
               "operationIds / schema names coinciding after sanitisation, hostile names; oracle R-CENSUS over the recorded manifest, the output tree and the diagnostics. distinct = distinct (broken-piece set, census outcome) signatures")
    jobs, info = [], {}
    positions = ["new_component", "new_model_property", "new_array_items", "new_union_member", "new_allof_parent", "new_additional", "existing_model_property", "depended_component",
                 "new_op_param", "new_op_response", "new_op_body", "new_op_optional_path", "new_op_duplicate_params", "new_op_unparseable_body", "new_op_bad_status"]
    for i in range(260 if quick else 6000):
        d, feats = docs.random_doc(("C07", seed(), i), hostile=[0, 0.3][i % 2], n_ops=r.randint(1, 6))
        descs = []
        behavioural = False
        for k in range(r.choice([0, 1, 1, 2, 3, 4])):
            out = insert_bad(d, r, r.choice(positions), r.choice(list(BAD_SCHEMAS)), i * 10 + k)
            if out:
                d, _, _, desc = out
                descs.append(desc)
        ops = list(docs.iter_ops(d))
        if ops and r.random() < 0.5:
            path, m, op, item = r.choice(ops)
            what = r.choice(["unsupported_request_media", "unsupported_response_media", "default_status", "range_status", "extra_request_media", "second_json_media", "second_json_media"])
            if what == "unsupported_request_media":
                op.setdefault("requestBody", {"content": {}}) if "$ref" not in (op.get("requestBody") or {}) else None
                if isinstance(op.get("requestBody"), dict) and "content" in op["requestBody"]:
                    op["requestBody"]["content"]["application/xml"] = {"schema": {"type": "string"}}
            elif what == "extra_request_media":
                if isinstance(op.get("requestBody"), dict) and "content" in op["requestBody"]:
                    op["requestBody"]["content"]["text/csv"] = {"schema": {"type": "string"}}
                    op["requestBody"]["content"]["application/json; charset=utf-8"] = {"schema": {"type": "integer"}}
            elif what == "second_json_media":
                # two media types of the same body kind with different schemas: each needs its own dispatch branch
                # (referenced models: two inline bodies of one body kind would derive the same class name and the second be diagnosed)
                d["components"]["schemas"]["ZqFullDoc"] = {"type": "object", "properties": {"zq_full": {"type": "string"}}, "required": ["zq_full"]}
                d["components"]["schemas"]["ZqPatchDoc"] = {"type": "object", "properties": {"zq_patch": {"type": "integer"}}, "required": ["zq_patch"]}
                op["requestBody"] = {"content": {"application/json": {"schema": {"$ref": "#/components/schemas/ZqFullDoc"}}, "application/merge-patch+json": {"schema": {"$ref": "#/components/schemas/ZqPatchDoc"}}}}
                if r.random() < 0.5:
                    op["requestBody"]["content"]["multipart/form-data"] = {"schema": {"type": "object", "properties": {"zq_part": {"type": "string"}}, "required": ["zq_part"]}}
                behavioural = True
            elif what == "unsupported_response_media":
                op["responses"]["418"] = {"description": "teapot", "content": {"application/xml": {"schema": {"type": "string"}}}}
            elif what == "default_status":
                op["responses"]["default"] = {"description": "any"}
            else:
                op["responses"]["2XX"] = {"description": "range"}
            descs.append({"position": what})
        if r.random() < 0.15:
            group = r.choice([["get-thing", "get_thing"], ["listItems", "list_items", "ListItems"], names.colliding_set(r, 2)])
            for gi, g in enumerate(group):
                d["paths"][f"/zq-coll-{gi}"] = {"get": {"operationId": g, "tags": ["zqcoll"], "responses": {"200": {"description": "ok"}}}}
            descs.append({"position": "colliding_operation_ids", "names": group})
        if r.random() < 0.2:
            # multi-tag operations whose module names coincide in a tag that is not the first tag of the later one
            okr = {"200": {"description": "ok"}}
            d["paths"]["/zq-mt-a"] = {"get": {"operationId": "listThings", "tags": ["zqmt", "zqshared"], "responses": okr}}
            d["paths"]["/zq-mt-b"] = {"get": {"operationId": "list_things", "tags": ["zqother", "zqshared"], "responses": okr}}
            d["paths"]["/zq-mt-c"] = {"get": {"operationId": "list-things", "tags": ["zqthird", "zqother", "zqmt"], "responses": okr}}
            descs.append({"position": "multi_tag_colliding_operation_ids"})
        if r.random() < 0.2:
            # a component object and a nested inline enum / object deriving the same class name (either declaration order)
            a = {"type": "object", "properties": {"code": {"type": "integer"}}}
            # (one collision per owner: the first failing property of a model ends its processing)
            b = {"type": "object", "properties": {"status": {"type": "string", "enum": ["open", "closed"]}, "n": {"type": "integer"}}}
            b2 = {"type": "object", "properties": {"detail": {"type": "object", "properties": {"why": {"type": "string"}}}, "n": {"type": "integer"}}}
            b3 = {"type": "object", "properties": {"kind": {"type": "integer", "enum": [1, 2]}}}
            items = [("ZqOrderStatus", a), ("ZqPurchaseDetail", docs.clone(a)), ("ZqOrder", b), ("ZqPurchase", b2), ("ZqInvoiceKind", {"type": "string", "enum": ["x", "y"]}), ("ZqInvoice", b3)]
            r.shuffle(items)
            for k_, v_ in items:
                d["components"]["schemas"][k_] = v_
            descs.append({"position": "component_vs_inline_class_name"})
        if r.random() < 0.15:
            group = r.choice([["ZqFooBAR", "ZqFooBar"], ["zq-thing", "zq_thing"], ["ZqAbc", "Zqabc"]])
            for g in group:
                d["components"]["schemas"][g] = {"type": "object", "properties": {"a": {"type": "string"}}}
            descs.append({"position": "colliding_schema_names", "names": group})
        j = run.job(d, want=["manifest", "tree"], sandbox=[{"a": "getattr", "module": "models", "name": "__all__"}], cfg={"generate_all_tags": i % 3 == 0},
                    **({"plan": {"fn": "ops", "args": {"seed": i, "calls_per_op": 3, "import": False}}} if behavioural else {}))
        info[j["id"]] = (f"random:{i}", descs)
        jobs.append(j)
    # deterministic: a valid component reached from a model that has a bad piece elsewhere - through a property, array items, tuple items, additional
    # properties, a union member - before and after the bad property: the valid component keeps its class (or is named in a diagnostic)
    Rf_ = lambda n_: {"$ref": f"#/components/schemas/{n_}"}  # noqa: E731
    links_ = {"property": lambda t_: t_, "items": lambda t_: {"type": "array", "items": t_}, "tuple": lambda t_: {"type": "array", "prefixItems": [{"type": "string"}, t_]}, "additional": lambda t_: {"type": "object", "additionalProperties": t_},
              "union": lambda t_: {"oneOf": [t_, {"type": "integer"}]}, "nullable": lambda t_: {"nullable": True, "allOf": [t_]}}
    for lk_, mk_ in links_.items():
        for tkind_, tsch_ in (("object", {"type": "object", "properties": {"sku": {"type": "string"}}}), ("enum", {"type": "string", "enum": ["zq_p", "zq_q"]})):
            for bad_first_ in (False, True):
                for bk_ in ("array_no_items", "dangling_ref"):
                    bad_ = {"type": "array"} if bk_ == "array_no_items" else {"$ref": "#/components/schemas/ZqNoSuchThing"}
                    props_ = [("good_link", mk_(Rf_("ZqItem"))), ("bad_piece", bad_)]
                    dd_ = docs.base_doc("3.0.3", "Bystander")
                    dd_["components"]["schemas"] = {"ZqShelf": {"type": "object", "properties": dict(props_[::-1] if bad_first_ else props_)}, "ZqItem": json_clone(tsch_),
                                                    "ZqOther": {"type": "object", "properties": {"again": Rf_("ZqItem")}}}
                    dd_["paths"] = {"/item": {"get": {"operationId": "get_item_zq", "responses": {"200": {"description": "ok", "content": {"application/json": {"schema": Rf_("ZqItem")}}}}}}}
                    j = run.job(dd_, want=["manifest", "tree"], sandbox=[{"a": "getattr", "module": "models", "name": "__all__"}], cfg={"literal_enums": tkind_ == "enum" and bad_first_})
                    info[j["id"]] = (f"bystander:{lk_}:{tkind_}:{bk_}:{int(bad_first_)}", [{"position": "bystander_of_bad_piece", "link": lk_}])
                    jobs.append(j)
    for label_, d_ in docs.rare_feature_docs():
        for gat_ in (False, True):
            j = run.job(d_, want=["manifest", "tree"], sandbox=[{"a": "getattr", "module": "models", "name": "__all__"}], cfg={"generate_all_tags": gat_})
            info[j["id"]] = (label_ + (":all_tags" if gat_ else ""), [{"position": "rare_feature"}])
            jobs.append(j)
    # a document in another encoding than UTF-8 whose names differ only in non-ASCII letters: refused, or every item accounted for (never decoded lossily)
    import base64 as _b64
    import json as _json
    okr_ = {"200": {"description": "ok"}}
    dl = docs.base_doc("3.0.3", "Latin names")
    dl["components"]["schemas"] = {"Se\u00e1l": {"type": "object", "properties": {"a": {"type": "string"}}}, "Se\u00e4l": {"type": "object", "properties": {"b": {"type": "integer"}}}, "Plain": {"type": "object", "properties": {"c": {"type": "string"}}}}
    dl["paths"] = {"/m\u00e9n": {"get": {"operationId": "get_m\u00e9n", "tags": ["t"], "responses": okr_}}, "/m\u00ean": {"get": {"operationId": "get_m\u00ean", "tags": ["t"], "responses": okr_}}, "/plain": {"get": {"operationId": "get_plain", "tags": ["t"], "responses": okr_}}}
    for enc_ in ("latin-1", "cp1252", "utf-8", "utf-8-sig", "utf-16"):
        for sfx_ in (".json", ".yaml"):
            raw_ = _json.dumps(dl, ensure_ascii=False).encode(enc_)
            j = run.job(dl, want=["manifest", "tree"], raw_b64=_b64.b64encode(raw_).decode(), suffix=sfx_, sandbox=[{"a": "getattr", "module": "models", "name": "__all__"}])
            info[j["id"]] = (f"encoded:{enc_}:{sfx_}", [{"position": "document_encoding", "encoding": enc_}])
            jobs.append(j)
    rs = run.map(jobs, timeout=300)
    for j, res in zip(jobs, rs):
        label, descs = info[j["id"]]
        if res.get("_error"):
            continue
        if res.get("exc"):
            ev.count("generator_crashed(C06)")
            continue
        if not res.get("accepted"):
            ev.count("document_rejected")
            continue
        d = j["doc"]
        comps = d["components"]["schemas"]
        man = res.get("manifest") or {}
        tree = res.get("tree") or {}
        diags = res.get("diags") or []
        headers = " \n ".join((x.get("header") or "") for x in diags)
        details = " \n ".join((x.get("detail") or "") for x in diags)
        alltext = headers + " \n " + details + " \n " + " ".join((x.get("data") or "") for x in diags)
        w = {"doc": d, "inserted": descs}
        ev.count("documents")
        # ---- operations
        gen = {(e["method"], skeleton(e["path"])): e for e in man.get("endpoints") or []}
        for path, m, op, item in docs.iter_ops(d):
            ev.count("operations")
            key = (m, skeleton(path))
            if key in gen:
                e = gen[key]
                # responses
                handled = {str(x["status"]) for x in e["responses"]}
                for st in (op.get("responses") or {}):
                    ev.count("response_statuses")
                    if str(st) in handled:
                        continue
                    if not any(f"{m.upper()} {path}" in (x.get("header") or "") and (str(st) in (x.get("detail") or "")) for x in diags):
                        vd.violation("response_status_dropped_silently", f"{m.upper()} {path}: documented status {st!r} is neither handled nor named in a warning", w)
                # request media types
                body = resolve_body(d, op)
                if isinstance(body, dict) and isinstance(body.get("content"), dict):
                    have = {b["content_type"] for b in e["bodies"]}
                    for mt in body["content"]:
                        ev.count("request_media_types")
                        if mt in have:
                            continue
                        if not any(f"{m.upper()} {path}" in (x.get("header") or "") for x in diags):
                            vd.violation("request_media_type_dropped_silently", f"{m.upper()} {path}: request media type {mt!r} is neither generated nor named in a warning", w)
            else:
                if f"{m.upper()} {path}" not in headers:
                    vd.violation("operation_dropped_silently", f"{m.upper()} {path} has no generated endpoint and no diagnostic names it", w)
                else:
                    ev.count("operations_diagnosed")
        # ---- request media types at run time: calling with the body of each generated media type sends that media type
        from .. import expect
        from ..harness import actions_results
        for a, x in actions_results(res):
            if a["a"] != "call" or x.get("action_exc") or not (a["x"].get("body") or {}).get("media") or a["x"]["body"].get("ambiguous_dispatch") or a["x"]["body"].get("n_bodies", 1) < 2:
                continue
            for variant, vr in x.items():
                if vr.get("missing"):
                    continue
                ev.count("multi_body_calls")
                reqs = vr.get("requests") or []
                if not reqs:
                    continue
                for eff, det in expect.check_request(reqs[0], a["x"]):
                    if eff.startswith("content_type"):  # (what is inside the body is C03's concern; here: was this media type handled at all)
                        vd.violation("request_media_type_not_handled_by_function", f"{a['module']}.{variant}: body documented as {a['x']['body']['media']}: {det}", dict(w, action={k: v for k, v in a.items() if k != 'x'}))
                        break
        # ---- every endpoint handed to the templates has a module of its own that is *its* function (method and path template), under each of its tags
        for e in man.get("endpoints") or []:
            rel = f"api/{e['tag']}/{e['module']}.py"
            src = tree.get(rel)
            ev.count("endpoint_modules_identified")
            if not isinstance(src, str):
                vd.violation("endpoint_module_missing", f"{e['method'].upper()} {e['path']}: no module {rel} although the operation was handed to the templates", w)
                continue
            mm = re.search(r'"method": "(\w+)"', src)
            mu = re.search(r'"url": f?"([^"]*)"', src)
            # every status the parser handed over has a decoding branch of its own in the function (a documented status must not fall through to "unexpected")
            for rs_ in e.get("responses") or []:
                ev.count("response_branches_looked_for")
                st_ = str(rs_["status"])
                if not re.search(r"response\.status_code == " + re.escape(st_) + r"\b", src) and not re.search(r"HTTPStatus\.\w+", src) and not (st_.upper().endswith("XX") or st_ == "default"):
                    vd.violation("response_status_without_branch", f"{rel}: status {st_} of {e['method'].upper()} {e['path']} was handed to the templates but the function has no branch for it", dict(w, file=rel))
                    break
            if not mm or not mu or mm.group(1).lower() != e["method"].lower() or skeleton(mu.group(1).split('".format')[0]) != skeleton(e["path"]):
                vd.violation("endpoint_module_is_another_operation", f"{rel} should be {e['method'].upper()} {e['path']} but sends {mm.group(1) if mm else None} {mu.group(1) if mu else None}", dict(w, file=rel))
        # ---- endpoint files
        for tag in {e["tag"] for e in man.get("endpoints") or []}:
            want = len([e for e in man["endpoints"] if e["tag"] == tag])
            got = len([k for k in tree if re.fullmatch(rf"api/{re.escape(tag)}/[^/]+\.py", k) and not k.endswith("__init__.py")])
            if got != want:
                vd.violation("endpoint_file_overwritten", f"tag {tag}: {want} endpoints handed to the templates but {got} module files exist", w)
        # ---- schemas
        refs = man.get("refs") or {}
        allv = None
        sb = (res.get("sandbox") or {}).get("results") or []
        if sb and not sb[0].get("action_exc") and sb[0].get("has"):
            allv = set(i.get("v") for i in (sb[0]["value"].get("v") or []))
        by_cls = {}
        for name, sch in comps.items():
            kind = is_census_item(sch, comps)
            if not kind:
                continue
            ev.count("census_schemas")
            ref = f"/components/schemas/{name}"
            ent = refs.get(ref)
            if ent and ent.get("cls"):
                by_cls.setdefault(ent["cls"], []).append(name)
                mod = (man.get("models") or {}).get(ent["cls"], (man.get("enums") or {}).get(ent["cls"]))
                want_kind = "models" if ent["kind"] == "ModelProperty" else "enums"
                if mod is not None and ent["cls"] not in (man.get(want_kind) or {}):
                    vd.violation("schema_class_taken_over", f"{ref} is a {ent['kind']} but the class {ent['cls']} handed to the templates is of the other kind (an enum / model with the same derived name replaced it) and no diagnostic names it" if ref not in alltext else "", w) if ref not in alltext and name not in alltext else None
                    continue
                if mod is None:
                    # the reference resolves to a property whose class was dropped from classes_by_name
                    if ref not in alltext:
                        vd.violation("schema_class_missing", f"{ref} resolves to class {ent['cls']} which is not among the classes handed to the templates, and no diagnostic names it", w)
                    continue
                f = f"models/{mod['module']}.py"
                if f not in tree or not re.search(rf"^\s*(class )?{re.escape(ent['cls'])}\b", tree[f], re.M):
                    vd.violation("schema_module_missing", f"{ref}: class {ent['cls']} not found in {f}", w)
                if allv is not None and ent["cls"] not in allv:
                    vd.violation("schema_not_exported", f"{ref}: class {ent['cls']} missing from models.__all__", w)
            else:
                if ref not in alltext and name not in alltext:
                    vd.violation(f"schema_dropped_silently:{kind}", f"{ref} ({kind}) produced neither a class nor a diagnostic naming it", w)
                else:
                    ev.count("schemas_diagnosed")
        for cls, keys in by_cls.items():
            if len(keys) > 1 and not any(k in alltext for k in keys):
                vd.violation("two_schemas_one_class", f"component schemas {keys} resolve to the single class {cls} without a diagnostic", w)
        n_files = len([k for k in tree if re.fullmatch(r"models/[^/]+\.py", k) and not k.endswith("__init__.py")])
        n_cls = len(man.get("models") or {}) + len(man.get("enums") or {})
        if n_files != n_cls:
            vd.violation("model_file_overwritten", f"{n_cls} classes handed to the templates but {n_files} module files exist in models/", w)
        ev.seen(("C07", tuple(sorted(x["position"] for x in descs)), bool(diags)))
        if len(ev.samples) < 3 and descs and diags:
            ev.sample({"inserted": descs[:3], "operations": len(list(docs.iter_ops(d))), "generated_endpoints": len(man.get("endpoints") or []), "census_schemas": sum(1 for s in comps.values() if is_census_item(s, comps)), "diagnostics": [x["header"].strip()[:70] for x in diags[:3]]})
    vd.inconclusive_if(ev.counters.get("operations", 0) < 300 or ev.counters.get("census_schemas", 0) < 500, "too few census items")
    return run.finish()


if __name__ == "__main__":
    main_wrapper(main)
