"""C05 — document text is only ever data, never code (DESIGN.md section 8, C05).

For every (slot, payload): the document with the hostile text in that slot is generated next to the same document with
a benign alphanumeric token in the slot.  If the piece is rejected with a diagnostic that is allowed.  Otherwise: every
.py compiles; the AST *shape* of the tree (identifiers and string constants blanked, import blocks sorted) equals the
control's; every occurrence of the slot's canary lies inside a string token or an identifier; pyproject.toml / setup.py
carry the exact text; importing and exercising the package raises no M-EXEC audit event; and run-time-meaningful text
(property / parameter names, enum values, string defaults, paths, media types) is observed behaviourally character for
character (C02 / C03 oracles on the payload document).
"""
from __future__ import annotations

import ast
import io
import json
import tokenize
import tomllib

from .. import docs, expect
from ..common import rng, seed, tier
from ..harness import Run, actions_results, artefact_kind, main_wrapper
from .c02 import judge_roundtrip


def CN(i):
    return f"CNRY{i}Q"


def payloads(c: str, ex: str) -> dict:
    """payload class -> text; c = canary token, ex = marker an executed active payload would hand to os.system."""
    act = f"__import__('os').system('echo {ex}')"
    return {
        "sq": f"{c}'x", "dq": f'{c}"x', "tq": f'{c}"""x', "tsq": f"{c}'''x", "bs_dq": f'{c}\\"x', "bs_sq": f"{c}\\'x", "trailing_bs": f"{c}x\\", "bs": f"{c}a\\b\\n", "double_bs_dq": f'{c}\\\\"x',
        "newline": f"{c}a\nb", "crlf": f"{c}a\r\nb", "fstring": f"{c}{{x}}{{{{y", "fstring_active": f"{c}{{{act}}}", "hash": f"{c} # x", "percent": f"{c}%s %(x)s {{}}", "jinja": f"{c}{{{{ 7*7 }}}}{{% if 1 %}}",
        "docstring_break": f'{c}"""\n{act}\n"""', "docstring_break_sq": f"{c}'''\n{act}\n'''", "dq_stmt": f'{c}"\n{act}\n#', "sq_stmt": f"{c}'\n{act}\n#", "dq_expr": f'{c}" + str({act}) + "', "sq_expr": f"{c}' + str({act}) + '",
        "toml_break": f'{c}"\nzq_injected = "1', "setup_break": f'{c}", zq={act}, y="', "raw_dq_end": f'{c}\\', "unicode_escape": f"{c}\\u0022\\x22\\N{{QUOTATION MARK}}", "tq_bs": f'{c}\\"""', "paren": f"{c}')]}}){act}#",
        "unicode": f"{c}é“”‘’ x", "nul": f"{c}\x00x", "tab": f"{c}\tx", "long": c + "x" * 300,
    }


SLOTS = ["info.title", "info.description", "info.version", "tag", "operationId", "op.summary", "op.description", "path.literal", "param.query.name", "param.header.name", "param.cookie.name", "param.path.name",
         "param.description", "media_type.request", "schema.key", "schema.title", "schema.description", "schema.example", "property.name", "property.description", "property.example", "property.title", "enum.value", "enum.value.first_alpha",
         "const.value", "default.string", "default.any", "default.enum_ref", "response.description", "inline.title", "requestBody.description", "enum.description", "param.example", "default.query_param",
         "property.name.ref", "property.name.wrapped_ref", "property.name.model_ref", "param.query.name.ref", "param.header.name.ref", "property.name.array", "property.name.union",
         # routes: the same text slot reached through another construction; keyed by the slot they lead to (ROUTES)
         "property.name.const", "default.string.allof_override", "default.string.allof_inherited", "property.description.allof", "enum.value.allof_narrowed"]

# slot spelled in the violation key for a route (same mechanism, same key; the route is named in the witness)
ROUTES = {"property.name.const": "property.name", "default.string.allof_override": "default.string", "default.string.allof_inherited": "default.string", "property.description.allof": "property.description",
          "enum.value.allof_narrowed": "enum.value"}

RUNTIME_SLOTS = {"property.name.ref", "property.name.wrapped_ref", "property.name.model_ref", "param.query.name.ref", "param.header.name.ref", "property.name.array", "property.name.union","property.name", "param.query.name", "param.header.name", "param.cookie.name", "enum.value", "enum.value.first_alpha", "default.string", "path.literal", "const.value", "default.any", "default.query_param"}


def base_doc(version="3.0.3"):
    d = docs.base_doc(version, "Inject API")
    d["info"]["description"] = "plain description"
    d["components"]["schemas"] = {
        "Thing": {"type": "object", "description": "a thing", "required": ["name"], "properties": {
            "name": {"type": "string", "description": "the name"}, "kind": {"$ref": "#/components/schemas/Color"}, "fixed": {"const": "fixed-value"},
            "note": {"type": "string", "default": "dflt"}, "anyd": {"default": "anydflt"}, "inner": {"type": "object", "properties": {"q": {"type": "integer"}}}}},
        "Color": {"type": "string", "enum": ["red", "green"], "description": "colors"},
    }
    d["paths"] = {"/things/{tid}/sub": {"post": {
        "operationId": "create_thing", "tags": ["things"], "summary": "Create", "description": "Creates a thing",
        "parameters": [{"name": "tid", "in": "path", "required": True, "schema": {"type": "string"}}, {"name": "flt", "in": "query", "schema": {"type": "string"}, "description": "filter"},
                       {"name": "X-Hdr", "in": "header", "schema": {"type": "string"}}, {"name": "ck", "in": "cookie", "schema": {"type": "string"}}, {"name": "qd", "in": "query", "schema": {"type": "string", "default": "qdflt"}}],
        "requestBody": {"description": "the body", "content": {"application/json": {"schema": {"$ref": "#/components/schemas/Thing"}}}},
        "responses": {"200": {"description": "fine", "content": {"application/json": {"schema": {"$ref": "#/components/schemas/Thing"}}}}}}}}
    return d


def inject(d: dict, slot: str, text: str):
    """Returns the modified doc or None when the slot is not applicable to the text."""
    d = docs.clone(d)
    S = d["components"]["schemas"]
    pk = next(iter(d["paths"]))
    op = d["paths"][pk]["post"]
    P = op["parameters"]
    ek = next(k for k, v in S.items() if isinstance(v, dict) and "enum" in v)
    if slot == "info.title":
        d["info"]["title"] = text
    elif slot == "info.description":
        d["info"]["description"] = text
    elif slot == "info.version":
        d["info"]["version"] = text
    elif slot == "tag":
        op["tags"] = [text]
    elif slot == "operationId":
        op["operationId"] = text
    elif slot == "op.summary":
        op["summary"] = text
    elif slot == "op.description":
        op["description"] = text
    elif slot == "path.literal":
        if any(ch in text for ch in "{}?#\x00") or "\n" in text or "\r" in text:
            return None
        if not pk.endswith("/sub"):
            return None
        d["paths"][pk[:-3] + text] = d["paths"].pop(pk)
    elif slot == "param.query.name":
        P[1]["name"] = text
    elif slot == "param.header.name":
        if not all(33 <= ord(ch) < 127 and ch not in ':"(),/;<=>?@[\\]{}' for ch in text):
            return None  # not an HTTP token: cannot be a header name on any wire
        P[2]["name"] = text
    elif slot == "param.cookie.name":
        if not all(33 <= ord(ch) < 127 and ch not in '()<>@,;:\\"/[]?={} ' for ch in text):
            return None
        P[3]["name"] = text
    elif slot == "param.path.name":
        import re
        if not re.fullmatch(r"[a-zA-Z_-][a-zA-Z0-9_-]*", text):
            return None
        if "{tid}" not in pk:
            return None
        P[0]["name"] = text
        d["paths"][pk.replace("{tid}", "{" + text + "}")] = d["paths"].pop(pk)
    elif slot == "param.description":
        P[1]["description"] = text
    elif slot == "param.example":
        P[1]["example"] = text
    elif slot == "media_type.request":
        if any(ord(ch) < 32 for ch in text):
            return None
        op["requestBody"]["content"] = {f"application/{text}+json": op["requestBody"]["content"]["application/json"]}
    elif slot == "schema.key":
        if "/" in text or "~" in text or "#" in text or "%" in text:
            return None
        if ek != "Color":
            return None
        S[text] = S.pop("Color")
        S["Thing"]["properties"]["kind"] = {"$ref": f"#/components/schemas/{text}"}
    elif slot == "schema.title":
        S["Thing"]["title"] = text
    elif slot == "schema.description":
        S["Thing"]["description"] = text
    elif slot == "schema.example":
        S["Thing"]["example"] = text
    elif slot == "property.name":
        S["Thing"]["properties"][text] = {"type": "string"}
        S["Thing"]["required"].append(text)
    elif slot in ("property.name.ref", "property.name.wrapped_ref", "property.name.model_ref", "property.name.array", "property.name.union"):
        S["Sub"] = {"type": "object", "properties": {"s": {"type": "string"}}}
        S["Thing"]["properties"][text] = {"property.name.ref": {"$ref": f"#/components/schemas/{ek}"}, "property.name.wrapped_ref": {"allOf": [{"$ref": f"#/components/schemas/{ek}"}]}, "property.name.model_ref": {"$ref": "#/components/schemas/Sub"},
                                          "property.name.array": {"type": "array", "items": {"$ref": "#/components/schemas/Sub"}}, "property.name.union": {"oneOf": [{"$ref": "#/components/schemas/Sub"}, {"type": "integer"}]}}[slot]
    elif slot == "param.query.name.ref":
        P[1]["name"] = text
        P[1]["schema"] = {"$ref": f"#/components/schemas/{ek}"}
    elif slot == "param.header.name.ref":
        if not all(33 <= ord(ch) < 127 and ch not in ':"(),/;<=>?@[\\]{}' for ch in text):
            return None
        P[2]["name"] = text
        P[2]["schema"] = {"oneOf": [{"$ref": f"#/components/schemas/{ek}"}]}
    elif slot == "property.description":
        S["Thing"]["properties"]["name"]["description"] = text
    elif slot == "property.example":
        S["Thing"]["properties"]["name"]["example"] = text
    elif slot == "property.title":
        S["Thing"]["properties"]["name"]["title"] = text
    elif slot == "enum.value":
        S[ek]["enum"] = ["red", "0" + text]
    elif slot == "enum.value.first_alpha":
        S[ek]["enum"] = ["red", "z" + text]
    elif slot == "enum.description":
        S[ek]["description"] = text
    elif slot == "const.value":
        S["Thing"]["properties"]["fixed"] = {"const": text}
    elif slot == "default.string":
        S["Thing"]["properties"]["note"]["default"] = text
    elif slot == "property.name.const":
        S["Thing"]["properties"][text] = {"const": "k0"}
    elif slot == "default.string.allof_override":
        # the default is declared by a later allOf member that re-declares an inherited property
        S["Thing"]["properties"]["note"].pop("default", None)
        S["Derived"] = {"allOf": [{"$ref": "#/components/schemas/Thing"}, {"type": "object", "properties": {"note": {"type": "string", "default": text}}}]}
    elif slot == "default.string.allof_inherited":
        S["Thing"]["properties"]["note"]["default"] = text
        S["Derived"] = {"allOf": [{"$ref": "#/components/schemas/Thing"}, {"type": "object", "properties": {"note": {"type": "string", "description": "again"}, "extra": {"type": "integer"}}}]}
    elif slot == "property.description.allof":
        S["Derived"] = {"allOf": [{"$ref": "#/components/schemas/Thing"}, {"type": "object", "properties": {"name": {"type": "string", "description": text}}}]}
    elif slot == "enum.value.allof_narrowed":
        if ek != "Color":
            return None
        S[ek]["enum"] = ["red", "green", "0" + text]
        S["Derived"] = {"allOf": [{"$ref": "#/components/schemas/Thing"}, {"type": "object", "properties": {"kind": {"type": "string", "enum": ["red", "0" + text]}}}]}
    elif slot == "default.any":
        S["Thing"]["properties"]["anyd"]["default"] = text
    elif slot == "default.enum_ref":
        S[ek]["enum"] = ["red", "0" + text]
        if ek != "Color":
            return None
        S["Thing"]["properties"]["kind"] = {"allOf": [{"$ref": "#/components/schemas/Color"}], "default": "0" + text}
    elif slot == "default.query_param":
        P[4]["schema"]["default"] = text
    elif slot == "response.description":
        op["responses"]["200"]["description"] = text
    elif slot == "requestBody.description":
        op["requestBody"]["description"] = text
    elif slot == "inline.title":
        S["Thing"]["properties"]["inner"]["title"] = text
    else:
        raise KeyError(slot)
    return d


def shape(src: str) -> str:
    t = ast.parse(src)
    for node in ast.walk(t):
        for f in ("id", "arg", "attr", "name", "module", "asname"):
            if isinstance(getattr(node, f, None), str):
                setattr(node, f, "_")
        if isinstance(node, ast.alias):
            node.name = "_"
        if isinstance(node, ast.keyword) and node.arg:
            node.arg = "_"
        if isinstance(node, ast.Constant) and isinstance(node.value, (str, bytes)):
            node.value = "§"
        body = getattr(node, "body", None)
        if isinstance(body, list):
            # sort runs of import statements (their order follows the spelling of names)
            out, run_ = [], []
            for b in body:
                if isinstance(b, (ast.Import, ast.ImportFrom)):
                    run_.append(b)
                else:
                    out += sorted(run_, key=lambda x: (type(x).__name__, len(x.names), getattr(x, "level", 0)))
                    run_ = []
                    out.append(b)
            out += sorted(run_, key=lambda x: (type(x).__name__, len(x.names), getattr(x, "level", 0)))
            node.body = out
    return ast.dump(t)


def canary_contexts(src: str, canary: str):
    """Token types in which the canary occurs."""
    out = set()
    try:
        for tok in tokenize.generate_tokens(io.StringIO(src).readline):
            if canary in tok.string:
                out.add(tokenize.tok_name[tok.type])
    except Exception:
        out.add("TOKENIZE_ERROR")
    return out


def main() -> int:
    quick = tier() == "quick"
    run = Run("C05")
    r = rng("C05", seed())
    ev, vd = run.ev, run.vd
    ev.rule = (f"{len(SLOTS)} string-valued slots x {len(payloads('c', 'e'))} payload classes singly (each with a slot-unique canary; active payloads would call os.system with a marker) + random multi-slot combinations, "
               "metadata flavours poetry/setup (quick) + pdm/none (thorough), both enum styles, docstrings_on_attributes; oracle: diagnostics or {compile, AST shape == control, canary only in STRING/NAME tokens, TOML/setup.py values exact, "
               "no audited exec event on import + exercise, behavioural exactness of run-time-meaningful text via the C02/C03 oracles}. distinct = distinct (slot, payload class, config) signatures that were generated (not rejected)")
    ev.assumptions = ["header / cookie / path-parameter names are restricted to what HTTP and the path-template grammar can carry", "the control run uses an alphanumeric token in the same slot"]
    cfgs = [("poetry", {}), ("setup", {"docstrings_on_attributes": True})] if quick else [("poetry", {}), ("setup", {"docstrings_on_attributes": True}), ("pdm", {"literal_enums": True}), ("none", {"literal_enums": True, "docstrings_on_attributes": True})]
    base = base_doc()
    jobs, info = [], {}
    plan_args = {"seed": 1, "per_model": 6, "calls_per_op": 2, "import": True}

    def add(doc, key, meta, cfg):
        j = run.job(doc, want=["tree", "manifest"], meta=meta, cfg=cfg, plan={"fn": "c05", "args": plan_args})
        info[j["id"]] = key
        jobs.append(j)

    n = 0
    cases = []
    for si, slot in enumerate(SLOTS):
        names = list(payloads("c", "e"))
        for pi, pname in enumerate(names):
            for cfg_i in ([(si + pi) % len(cfgs)] if quick else range(len(cfgs))):
                n += 1
                cases.append(([(slot, pname)], cfg_i, n))
    for k in range(120 if quick else 3000):
        n += 1
        combo = [(r.choice(SLOTS), r.choice(list(payloads("c", "e")))) for _ in range(r.randint(2, 4))]
        if len({ROUTES.get(s, s) for s, _ in combo}) == len(combo):  # (routes write the same place as the slot they lead to: never two of them in one combination)
            cases.append((combo, k % len(cfgs), n))
    for combo, cfg_i, cid in cases:
        meta, cfg = cfgs[cfg_i]
        dp, dc = base, base
        ok = True
        canaries = []
        for k, (slot, pname) in enumerate(combo):
            c = CN(cid * 10 + k)
            exm = f"CNRY_EXEC_{cid * 10 + k}"
            text = payloads(c, exm)[pname]
            canaries.append((slot, pname, c, text))
            dp2 = inject(dp, slot, text)
            dc2 = inject(dc, slot, c + "ctl")
            if dp2 is None or dc2 is None:
                ok = False
                break
            dp, dc = dp2, dc2
        if not ok:
            continue
        add(dp, ("payload", cid, tuple(combo), cfg_i, tuple(canaries)), meta, cfg)
        add(dc, ("control", cid, tuple(combo), cfg_i, tuple(canaries)), meta, cfg)
    # names of one identifier in several spellings, in different scopes, all referring to one component: every scope keeps its own text
    sjobs = []
    for label, d in docs.interplay_docs():
        if "same_identifier_other_spelling" in label:
            for cfg_ in ({}, {"literal_enums": True}):
                sjobs.append(run.job(d, want=["manifest"], cfg=cfg_, plan={"fn": "c05", "args": dict(plan_args, calls_per_op=3)}))
    for j, res in zip(sjobs, run.map(sjobs, timeout=300)):
        if res.get("_error") or res.get("exc") or not res.get("accepted"):
            continue
        from ..harness import with_followups
        for a, x in with_followups(actions_results(res)):
            if x.get("action_exc"):
                continue
            w = {"doc": j["doc"], "cfg": j.get("cfg")}
            if a["a"] == "roundtrip" and not a["x"].get("expect_reject"):
                ev.count("respelled_name_roundtrips")
                if x.get("exc"):
                    vd.violation("exception:property.name:same_identifier_other_spelling", f"{a['cls']}.{x['stage']}: {x['exc']['type']}: {x['exc']['msg'][:120]}", dict(w, value=a["value"]))
                elif not expect.jeq(x["e"], a["value"]):
                    vd.violation("value_altered:property.name:same_identifier_other_spelling", f"{a['cls']}: {expect.jdiff(x['e'], a['value'])}", dict(w, value=a["value"]))
            elif a["a"] == "call":
                for variant, vr in x.items():
                    reqs = (vr or {}).get("requests") or []
                    if len(reqs) != 1:
                        continue
                    ev.count("respelled_name_calls")
                    for eff, det in expect.check_request(reqs[0], a["x"]):
                        if eff.split(":")[0] in ("missing", "extra"):
                            vd.violation("value_altered:param.query.name:same_identifier_other_spelling", f"{a['module']}.{variant}: {det}", w)
    rs = run.map(jobs, timeout=300)
    ctl = {}
    for j, res in zip(jobs, rs):
        k = info[j["id"]]
        if k[0] == "control":
            ctl[k[1]] = (j, res)
    single_bad = set()
    multi_problems = []
    for j, res in zip(jobs, rs):
        kind, cid, combo, cfg_i, canaries = info[j["id"]]
        if kind != "payload" or res.get("_error"):
            continue
        cj, cres = ctl.get(cid, (None, None))
        if cres is None or cres.get("_error") or cres.get("exc") or not cres.get("accepted"):
            ev.count("control_unusable")
            continue
        problems = judge_case(ev, j, res, cj, cres, combo, canaries)
        if problems is None:
            continue
        if len(combo) == 1:
            slot, pay = combo[0]
            for eff, what, wit in problems:
                single_bad.add((slot, pay))
                vd.violation(f"{eff}:{ROUTES.get(slot, slot)}:{pay}", what + (f" [route {slot}]" if slot in ROUTES else ""), wit)
        else:
            multi_problems.append((combo, problems))
        ev.seen(("C05", combo if len(combo) == 1 else ("multi", len(combo)), cfg_i))
        if len(ev.samples) < 4 and len(combo) == 1 and combo[0][1] in ("docstring_break", "setup_break", "fstring_active") and not problems:
            ev.sample({"slot": combo[0][0], "payload_class": combo[0][1], "text": canaries[0][3], "outcome": "generated: compiles, shape equal to control, canary only in string/identifier tokens, no exec event", "files": len(res.get("tree") or {})})
    # multi-slot combinations look for *interactions*: a combination is reported only when none of its constituents
    # violates singly (every single (slot, payload) is enumerated in every run)
    for combo, problems in multi_problems:
        ev.count("multi_slot_cases")
        if any((s_, p_) in single_bad for s_, p_ in combo):
            ev.count("multi_slot_cases_explained_by_a_single")
            continue
        for eff, what, wit in problems:
            vd.violation(f"{eff}:multi_slot_interaction", what, wit)
    ev.extra["single_slot_payload_pairs_violating"] = len(single_bad)
    vd.inconclusive_if(ev.counters.get("cases", 0) < 500 or ev.counters.get("canary_occurrences", 0) < 200, "too few cases reached the oracle")
    return run.finish()


def judge_case(ev, j, res, cj, cres, combo, canaries):
    """Returns a list of (effect, what, witness) or None when the case did not reach the oracle."""
    out = []
    w = {"doc": j["doc"], "control": cj["doc"], "slots": [list(x[:2]) for x in canaries], "texts": [x[3] for x in canaries], "meta": j.get("meta"), "cfg": j.get("cfg")}
    ev.count("cases")
    if res.get("exc"):
        ev.count("generator_crashed(C06)")
        return None
    if not res.get("accepted"):
        ev.count("rejected_whole_document")
        return None
    tree, ctree = res.get("tree") or {}, cres.get("tree") or {}
    fewer = len([k for k in tree if k.endswith(".py")]) < len([k for k in ctree if k.endswith(".py")])
    if fewer and res.get("diags"):
        ev.count("piece_rejected_with_diagnostic")
    bad = False
    shapes, cshapes = [], []
    for rel, text in tree.items():
        if not rel.endswith(".py") or not isinstance(text, str):
            continue
        try:
            shapes.append(shape(text))
        except SyntaxError as ex:
            out.append(("syntax_error", f"{rel}: {ex.msg} (line {ex.lineno}): {(ex.text or '').strip()[:120]}", dict(w, file=rel)))
            bad = True
        except ValueError as ex:
            out.append(("syntax_error", f"{rel}: {ex}", dict(w, file=rel)))
            bad = True
    if not bad and not fewer:
        for rel, text in ctree.items():
            if rel.endswith(".py") and isinstance(text, str):
                cshapes.append(shape(text))
        if sorted(shapes) != sorted(cshapes):
            out.append(("shape_changed", "the AST shape of the generated tree differs from the control run with a benign token in the same slot(s)", w))
            bad = True
    for slot, pname, c, text in canaries:
        for rel, src in tree.items():
            if rel.endswith(".py") and isinstance(src, str) and c in src:
                ctxs = canary_contexts(src, c)
                ev.count("canary_occurrences")
                illegal = ctxs - {"STRING", "NAME", "FSTRING_MIDDLE", "TOKENIZE_ERROR"}
                if illegal:
                    out.append(("canary_outside_string", f"{rel}: text of slot {slot} appears in token kinds {sorted(illegal)}", dict(w, file=rel)))
                    bad = True
    title = j["doc"]["info"]["title"]
    version = j["doc"]["info"]["version"]
    pt = tree.get("pyproject.toml")
    if isinstance(pt, str):
        try:
            t = tomllib.loads(pt)
            sect = t.get("tool", {}).get("poetry") or t.get("project") or {}
            if sect:
                ev.count("toml_values_checked")
                if sect.get("version") != version:
                    out.append(("value_altered", f"pyproject version {sect.get('version')!r} != {version!r}", w))
                if sect.get("description") != f"A client library for accessing {title}":
                    out.append(("value_altered", f"pyproject description {sect.get('description')!r} != 'A client library for accessing ' + {title!r}", w))
                extra = set(sect) - {"name", "version", "description", "authors", "readme", "packages", "include", "dependencies", "requires-python"}
                if extra:
                    out.append(("toml_injected_key", f"pyproject section gained keys {sorted(extra)}", w))
        except tomllib.TOMLDecodeError as ex:
            out.append(("toml_error", f"pyproject.toml: {ex}", w))
            bad = True
    sp = tree.get("setup.py")
    if isinstance(sp, str):
        try:
            call = next(n for n in ast.walk(ast.parse(sp)) if isinstance(n, ast.Call) and getattr(n.func, "id", "") == "setup")
            kws = {k.arg: k.value for k in call.keywords}
            ev.count("setup_values_checked")
            for kname, want in (("version", version), ("description", f"A client library for accessing {title}")):
                v = kws.get(kname)
                if not isinstance(v, ast.Constant) or v.value != want:
                    out.append(("value_altered", f"setup.py {kname} is {ast.dump(v)[:80] if v else None} expected {want!r}", w))
            extra = set(kws) - {"name", "version", "description", "long_description", "long_description_content_type", "packages", "python_requires", "install_requires", "package_data"}
            if extra:
                out.append(("setup_injected_keyword", f"setup() gained keywords {sorted(extra)}", w))
        except (SyntaxError, StopIteration, ValueError):
            pass
    sb = res.get("sandbox") or {}
    if sb.get("_error") or not sb.get("results"):
        ev.count("sandbox_unavailable")
        return out
    for e in sb.get("exec_events") or []:
        out.append(("executed", f"audited event while importing / exercising the generated package: {e}", w))
        bad = True
    if bad:
        return out
    from ..harness import with_followups
    for a, x in with_followups(actions_results(res)):
        if x.get("action_exc"):
            continue
        if a["a"] == "roundtrip" and a["x"].get("expect_reject") and any(e_ in ("exception", "value_altered") for e_, _, _ in out):
            ev.count("const_rejection_probe_skipped(the name is already not carried faithfully)")
        elif a["a"] == "roundtrip" and a["x"].get("expect_reject"):
            # a value that contradicts a const must be refused with ValueError whose text names the property character for character
            ev.count("const_rejections_probed")
            if not x.get("exc"):
                out.append(("wrong_const_accepted", f"{a['cls']}.from_dict accepted {a['value']!r} for const property {a['x']['prop']!r}", dict(w, value=a["value"])))
            elif x["exc"]["type"] != "ValueError":
                out.append(("exception", f"{a['cls']}.from_dict refusing a wrong const raised {x['exc']['type']}: {x['exc']['msg'][:120]} instead of ValueError", dict(w, value=a["value"])))
            elif a["x"]["prop"] not in (x["exc"].get("msg_full") or x["exc"]["msg"]):
                out.append(("value_altered", f"{a['cls']}.from_dict: the ValueError for const property {a['x']['prop']!r} spells the name differently: {x['exc']['msg'][:160]!r}", dict(w, value=a["value"])))
        elif a["a"] == "roundtrip":
            ev.count("behavioural_roundtrips")
            if x.get("exc"):
                out.append(("exception", f"{a['cls']}.{x['stage']}: {x['exc']['type']}: {x['exc']['msg'][:120]}", dict(w, value=a["value"])))
            elif not expect.jeq(x["e"], a["value"]):
                out.append(("value_altered", f"{a['cls']}: {expect.jdiff(x['e'], a['value'])}", dict(w, value=a["value"])))
        elif a["a"] == "construct":
            ev.count("default_constructions")
            if x.get("exc"):
                out.append(("exception", f"{a['cls']}(): {x['exc']['type']}: {x['exc']['msg'][:120]}", w))
            else:
                for pn, want in (a["x"].get("expect_defaults") or {}).items():
                    if (x.get("e") or {}).get(pn) != want:
                        out.append(("value_altered", f"default of {pn!r} encodes as {(x.get('e') or {}).get(pn)!r} expected {want!r}", w))
        elif a["a"] == "call":
            for variant, vr in x.items():
                if vr.get("missing"):
                    continue
                ev.count("behavioural_calls")
                reqs = vr.get("requests") or []
                if vr.get("exc") and not reqs:
                    out.append(("exception", f"{a['module']}.{variant}: {vr['exc']['type']}: {vr['exc']['msg'][:120]}", w))
                    continue
                for eff, det in expect.check_request(reqs[0], a["x"]) if reqs else []:
                    out.append(("value_altered", f"{a['module']}.{variant}: {det}", w))
        elif a["a"] == "enum_info":
            want = a["x"].get("values")
            got = sorted(str(m[1].get("v")) for m in x.get("members") or [])
            ev.count("enum_value_checks")
            if want is not None and got != sorted(map(str, want)):
                out.append(("value_altered", f"enum members {got} expected {sorted(want)}", w))
    # de-duplicate by effect (one witness per effect per case is enough)
    seen, dedup = set(), []
    for eff, what, wit in out:
        if eff not in seen:
            seen.add(eff)
            dedup.append((eff, what, wit))
    return dedup


if __name__ == "__main__":
    main_wrapper(main)
