"""C01 — every generated client is a valid, importable Python package (DESIGN.md section 8, C01).

Refuting events: an accepted document for which a generated .py does not compile, a module raises on import in a
fresh interpreter, a generated file imports something outside stdlib/httpx/attrs/dateutil/itself, an ImportFrom or a
global name does not resolve, annotations do not evaluate, or pyproject.toml is not TOML.
"""
from __future__ import annotations

import re

from .. import docs, names
from ..common import rng, seed, tier
from ..harness import Run, artefact_kind, classify_syntax, dangling_mechanism, main_wrapper, tree_static_problems

METAS = ["none", "poetry", "pdm", "setup"]


def build_jobs(run: Run, quick: bool):
    jobs, info = [], {}
    r = rng("C01", seed())

    def add(doc, label, feats, **kw):
        j = run.job(doc, want=["tree"], sandbox=[{"a": "import_all"}], **kw)
        info[j["id"]] = {"label": label, "features": sorted(feats), "meta": kw.get("meta", "none"), "cfg": kw.get("cfg") or {}}
        jobs.append(j)

    for label, d in docs.matrix_docs():
        for le in (False, True):
            add(d, "matrix:" + label, {"matrix", label.split(":")[1], "le" if le else "enum"}, cfg={"literal_enums": le}, meta="none")
    for k, (label, d) in enumerate(docs.interplay_docs()):
        for le in ((k % 2 == 0,) if quick else (False, True)):
            add(d, label, {"interplay", label.split(":")[1].rsplit("_", 1)[0], "le" if le else "enum"}, cfg={"literal_enums": le}, meta="none")
    for k, (label, d) in enumerate(docs.rare_feature_docs()):
        for ci_, cfg_ in enumerate(({}, {"literal_enums": True, "generate_all_tags": True})):
            add(d, label, {"rare", label.split(":")[1], f"cfg{ci_}"}, cfg=cfg_, meta=["none", "poetry"][ci_])
    # partly invalid documents: C08's bad pieces with dependants in every schema position; whatever remains must import
    from .c08 import BAD_SCHEMAS, insert_bad
    for i in range(60 if quick else 1200):
        d, feats = docs.random_doc(("C01b", seed(), i), n_schemas=r.randint(3, 8), n_ops=r.randint(1, 4))
        descs = []
        for k in range(r.choice([1, 1, 2])):
            out = insert_bad(d, r, r.choice(["depended_family", "depended_family", "depended_component", "existing_model_sharing_a_reference", "new_allof_parent", "new_union_member", "new_additional", "existing_op_extra_response"]), r.choice(list(BAD_SCHEMAS)), i * 10 + k)
            if out:
                d, _, _, desc = out
                descs.append(desc["position"])
        if descs:
            add(d, f"broken:{i}", feats | {"broken:" + p_ for p_ in descs}, cfg={"literal_enums": i % 3 == 0}, meta="none")
    n = 260 if quick else 6000
    for i in range(n):
        hostile = [0.0, 0.35, 0.7][i % 3]
        d, feats = docs.random_doc(("C01", seed(), i), hostile=hostile)
        cfg = {"literal_enums": r.random() < 0.3, "docstrings_on_attributes": r.random() < 0.3}
        add(d, f"random:{i}", feats | {f"hostile:{hostile}"}, cfg=cfg, meta=METAS[i % 4], fresh_sandbox=(i % 25 == 0))
    for i in range(8 if quick else 150):
        d, feats = docs.random_doc(("C01h", seed(), i), hostile=0.3)
        add(d, f"hooks:{i}", feats | {"with_hooks"}, hooks=True, meta=METAS[i % 4])
    return jobs, info


def removed_by_cascade(diags: list) -> set:
    """Collision keys of the component names which some diagnostic lists as removed by the error cascade."""
    out = set()
    for d in diags:
        det = d.get("detail") or ""
        if "resulted in the removal of" in det:
            for line in det.split("resulted in the removal of:")[1].splitlines():
                line = line.strip()
                if line.startswith("/components/schemas/"):
                    out.add(names.collide_key(line.rsplit("/", 1)[-1]))
    return out


def judge(run: Run, j: dict, r: dict, inf: dict):
    ev, vd = run.ev, run.vd
    if r.get("_error"):
        return
    if r.get("exc") or r.get("nonterminating"):
        ev.count("generator_crashed(C06)")
        return
    if not r.get("accepted"):
        ev.count("rejected")
        return
    ev.count("accepted")
    witness = {"doc": j["doc"], "cfg": inf["cfg"], "meta": inf["meta"], "label": inf["label"]}
    n_problems = 0
    bad_files = set()
    for eff, rel, msg, text in tree_static_problems(r.get("tree") or {}):
        n_problems += 1
        bad_files.add(rel.rsplit("/", 1)[-1])
        mech = classify_syntax(msg, text) if eff == "syntax_error" else "toml"
        if mech == "duplicate_argument":
            m_ = re.search(r"duplicate argument '(\w+)'", msg)
            mech += ":" + (m_.group(1) if m_ and m_.group(1) in ("body", "client", "url") else "other")
        vd.violation(f"{eff}:{artefact_kind(rel)}:{mech}", f"{rel}: {msg}: {text}", witness)
    ev.count("files_compiled", sum(1 for k in (r.get("tree") or {}) if k.endswith(".py")))
    sb = r.get("sandbox") or {}
    if sb.get("_error") or not sb.get("results"):
        ev.count("sandbox_unavailable")
        return
    res = sb["results"][0]
    if res.get("action_exc"):
        ev.count("sandbox_action_failed")
        return
    ev.count("modules_imported", res.get("modules", 0))
    # mechanism: a generated class carries the very name the templates import from typing / the package (class Union, class Any ...)
    shadow = set()
    for rel, text in (r.get("tree") or {}).items():
        if isinstance(text, str) and "/models/" in "/" + rel:
            shadow |= set(re.findall(r"^(?:class )?(Union|Any|Optional|Literal|TYPE_CHECKING|TypeVar|Mapping|BinaryIO|Generator|Unset|UNSET|File|Response|Client|AuthenticatedClient|HTTPStatus)\b(?:\(| = |:)", text, re.M))
    shadow_mech = ":class_shadows_template_import" if shadow else ""
    # mechanism (C07 / C09 merged:class_modules): two classes whose names differ only in case are written to one module file
    by_mod: dict = {}
    for rel, text in (r.get("tree") or {}).items():
        if isinstance(text, str) and rel.endswith("models/__init__.py"):
            for m_, n_ in re.findall(r"^from \.(\w+) import (\w+)$", text, re.M):
                by_mod.setdefault(m_, set()).add(n_)
    if any(len(v) > 1 for v in by_mod.values()):
        shadow_mech = ":classes_share_a_module"
    for e in res.get("errors", []):
        x = e["exc"]
        if x["type"] == "SyntaxError":
            continue  # reported above from the tree (same file or a file importing it)
        n_problems += 1
        vd.violation(f"import_error:{artefact_kind(e['module'].replace('.', '/') + '.py')}:{x['type']}{shadow_mech if x['type'] in ('TypeError', 'NameError', 'AttributeError', 'ImportError', 'KeyError') else ''}", f"{e['module']}: {x['type']}: {x['msg']}", witness)
    removed = removed_by_cascade(r.get("diags") or [])
    for u in res.get("unresolved", []):
        if "SyntaxError" in u["what"]:
            continue
        n_problems += 1
        mech = dangling_mechanism(u, r.get("tree") or {}, removed) or shadow_mech
        vd.violation(f"unresolved_name:{artefact_kind(u['module'].replace('.', '/') + '.py')}{mech}", f"{u['module']}:{u['line']}: {u['what']}", witness)
    for h in res.get("hint_errors", []):
        if any(b[:-3] in h["exc"] for b in bad_files) or (bad_files and "NameError" in h["exc"]):
            continue  # consequence of a module that does not compile
        n_problems += 1
        m = re.search(r"name '(\w+)' is not defined", h["exc"])
        mech = dangling_mechanism({"module": h["module"], "names": [m.group(1)] if m else []}, r.get("tree") or {}, removed) or shadow_mech
        vd.violation(f"annotation_unresolvable:{artefact_kind(h['module'].replace('.', '/') + '.py')}{mech}", f"{h['module']}.{h['obj']}: {h['exc']}", witness)
    for f in sb.get("foreign_imports", []):
        n_problems += 1
        vd.violation("foreign_import", f"{f[0]} imports {f[1]}", witness)
    for e in sb.get("exec_events", []):
        n_problems += 1
        vd.violation("exec_event_on_import", str(e), witness)
    ev.seen(("C01", tuple(inf["features"]), inf["meta"], tuple(sorted(inf["cfg"].items()))))
    if n_problems == 0 and inf["label"].startswith("random"):
        ev.sample({"label": inf["label"], "meta": inf["meta"], "cfg": inf["cfg"], "modules_imported": res.get("modules"), "paths": list((j["doc"].get("paths") or {}))[:3], "schemas": list(j["doc"]["components"]["schemas"])[:4]})


def main() -> int:
    quick = tier() == "quick"
    run = Run("C01")
    run.ev.rule = ("documents: feature matrix (kind x position x both enum styles) + random recursive documents (benign / 35% / 70% identifier-hostile quote-free names) "
                   "x meta {none,poetry,pdm,setup} x literal_enums x docstrings_on_attributes + a with-post-hooks sample; each accepted tree: compile() of every .py, tomllib, "
                   "import of every module in a sandbox interpreter with import/exec audit hooks, resolution of every ImportFrom and global name, get_type_hints of every class/function. "
                   "distinct = distinct (feature set, meta, config) signatures among accepted documents")
    run.ev.assumptions = ["a generator crash is C06's concern and is only counted here", "SyntaxWarnings are valid Python and not violations"]
    jobs, info = build_jobs(run, quick)
    rs = run.map(jobs, timeout=240)
    for j, r in zip(jobs, rs):
        judge(run, j, r, info[j["id"]])
    acc, rej = run.ev.counters.get("accepted", 0), run.ev.counters.get("rejected", 0)
    run.vd.inconclusive_if(acc < 0.9 * max(1, acc + rej), f"only {acc}/{acc + rej} documents accepted")
    run.vd.inconclusive_if(run.ev.counters.get("modules_imported", 0) == 0, "no module was imported")
    return run.finish()


if __name__ == "__main__":
    main_wrapper(main)
