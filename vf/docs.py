"""Workload generator: OpenAPI documents (as dicts), schema-valid JSON instances, and a small JSON-schema-subset
validator.  The document itself (in the subset this module emits) is the specification the reference models read.

Everything is deterministic in the `random.Random` passed in.
"""
from __future__ import annotations

import copy
import random

from . import names

METHODS = ["get", "put", "post", "delete", "options", "head", "patch", "trace"]


def base_doc(version: str = "3.0.3", title: str = "Verif API") -> dict:
    return {"openapi": version, "info": {"title": title, "version": "1.0.0"}, "paths": {}, "components": {"schemas": {}}}


# =============================================================================================== schema helpers
_MISSING = {"type": "object", "x-unresolved": True}


def resolve(s: dict, comps: dict) -> dict:
    seen = 0
    while isinstance(s, dict) and "$ref" in s and seen < 20:
        s = comps.get(s["$ref"].rsplit("/", 1)[-1], _MISSING)
        seen += 1
    return s


def unwrap_single(s: dict, comps: dict) -> dict:
    """A single-element allOf/oneOf/anyOf wrapper around a $ref (with only annotations beside it) is that ref."""
    if not isinstance(s, dict):
        return s
    subs = s.get("allOf", []) + s.get("oneOf", []) + s.get("anyOf", [])
    if len(subs) == 1 and "$ref" in subs[0] and "properties" not in s and "type" not in s:
        return resolve(subs[0], comps)
    return s


def is_null_schema(m: dict) -> bool:
    return isinstance(m, dict) and (m.get("type") == "null" or m.get("enum") == [None])


def nullable(s: dict, comps: dict) -> bool:
    """Does the schema admit JSON null?  (3.0 nullable, 3.1 type lists, null union members, null enum members.)"""
    if not isinstance(s, dict):
        return False
    if "$ref" in s:
        return nullable(resolve(s, comps), comps)
    if s == {} or (not any(k in s for k in ("type", "enum", "const", "oneOf", "anyOf", "allOf", "properties", "items"))):
        return True  # untyped: anything
    if "enum" in s:
        return None in s["enum"]
    if "const" in s:
        return False
    t = s.get("type")
    if isinstance(t, list):
        return "null" in t
    if t == "null":
        return True
    for k in ("oneOf", "anyOf"):
        if s.get(k):
            if s.get("nullable"):
                return True
            return any(nullable(m, comps) for m in s[k])
    if s.get("allOf"):
        if s.get("nullable"):
            return True
        if len(s["allOf"]) == 1 and "properties" not in s:
            return nullable(s["allOf"][0], comps)
        return False
    return bool(s.get("nullable"))


def is_objectish(s: dict, comps: dict, depth: int = 0) -> bool:
    s = resolve(s, comps)
    if "enum" in s or "const" in s or s.get("oneOf") or s.get("anyOf") or isinstance(s.get("type"), list):
        return False
    if s.get("type") == "object" or (s.get("type") is None and bool(s.get("properties"))):
        return True
    if s.get("allOf") and depth < 10:
        return any(is_objectish(m, comps, depth + 1) for m in s["allOf"])
    return False


def _meet_additional(a, b):
    """Extras must be valid against every allOf member: the most restrictive setting wins."""
    def norm(x):
        return True if (x is None or x is True or x == {}) else x
    a, b = norm(a), norm(b)
    if a is False or b is False:
        return False
    if a is True:
        return b
    if b is True:
        return a
    return a if a == b else False


def merged_object(s: dict, comps: dict, depth: int = 0) -> dict:
    """Effective {properties: {name: [schemas...]}, required: set, additional} of an object schema incl. allOf members."""
    s = resolve(s, comps)
    props: dict[str, list] = {}
    req: set = set(s.get("required") or [])
    additional = s.get("additionalProperties", True)
    for m in s.get("allOf", []) if depth < 8 else []:
        mm = merged_object(m, comps, depth + 1)
        for k, v in mm["properties"].items():
            props.setdefault(k, []).extend(v)
        req |= mm["required"]
        additional = _meet_additional(additional, mm["additional"])
    for k, v in (s.get("properties") or {}).items():
        props.setdefault(k, []).append(v)
    return {"properties": props, "required": req, "additional": additional}


# =============================================================================================== instances
class Tok:
    """Unique tokens so that every written value identifies its source."""

    EDGE_STRINGS = ["", "0", "false", "null", " ", "a b&c=d+e%25", "\u00e9\u6f22\U0001f680", "x" * 300, "line\nbreak", "{}", "[]", "-1", "None", "UNSET", "\"quoted\"", "tab\there"]

    def __init__(self, rng: random.Random):
        self.rng = rng
        self.n = 100
        self.flags: set = set()
        self.edge_ascii = False  # header / cookie values: printable ASCII without separators only
        self.edge = 0.0  # probability of an edge-case value (empty / falsy-looking / non-ASCII / long) for a plain string, 0 / huge for integers

    def take_flags(self) -> list:
        f = sorted(self.flags)
        self.flags = set()
        return f

    def next(self) -> int:
        self.n += 1
        return self.n

    def string(self) -> str:
        return f"s-{self.next()}"

    def integer(self) -> int:
        return self.rng.choice([1, -1]) * (1000 + self.next()) if self.rng.random() < 0.8 else self.rng.choice([0, -1, 2**31, -(2**40)])

    def number(self):
        r = self.rng.random()
        if r < 0.6:
            return (1000 + self.next()) + 0.5
        if r < 0.8:
            return 2000 + self.next()  # integral JSON number is a valid "number"
        return self.rng.choice([0.0, -0.25, 1e-7, 1.5e10])

    def date(self) -> str:
        n = self.next()
        return f"{2000 + n % 30:04d}-{1 + n % 12:02d}-{1 + n % 28:02d}"

    def datetime(self) -> str:
        n = self.next()
        base = f"{2000 + n % 30:04d}-{1 + n % 12:02d}-{1 + n % 28:02d}T{n % 24:02d}:{n % 60:02d}:{(n * 7) % 60:02d}"
        return base + self.rng.choice(["+00:00", "", "+02:00", "-05:30", ".123456+00:00", ".500000"])

    def uuid(self) -> str:
        return f"00000000-0000-4000-8000-{self.next():012x}"


class Bottomless(Exception):
    """The schema has no finite instance along the choices made (required reference cycle)."""


def _typed_scalar(t: str, fmt, tok: Tok):
    if t == "string":
        if fmt == "date":
            return tok.date()
        if fmt == "date-time":
            return tok.datetime()
        if fmt == "uuid":
            return tok.uuid()
        if tok.edge and tok.rng.random() < tok.edge:
            return tok.rng.choice(["", "0", "false", "null", "-1", "None", "UNSET"] if tok.edge_ascii else Tok.EDGE_STRINGS)
        return tok.string()
    if t == "integer":
        if tok.edge and tok.rng.random() < tok.edge:
            return tok.rng.choice([0, 1, -1, 2**53 - 1, -(2**53 - 1), 2**31, -(2**31) - 1, 10**15])
        return tok.integer()
    if t == "number":
        return tok.number()
    if t == "boolean":
        return tok.rng.random() < 0.5
    if t == "null":
        return None
    raise ValueError(t)


def any_value(tok: Tok, depth: int = 0):
    r = tok.rng.random()
    if depth > 1 or r < 0.4:
        return tok.rng.choice([tok.string(), tok.integer(), 1.25, True, False])
    if r < 0.6:
        return [any_value(tok, depth + 1) for _ in range(tok.rng.randint(0, 2))]
    if r < 0.9:
        return {f"k{tok.next()}": any_value(tok, depth + 1) for _ in range(tok.rng.randint(0, 2))}
    return None


def instance(s: dict, comps: dict, tok: Tok, mode: str = "rand", depth: int = 0, force: dict | None = None):
    """One JSON value valid for schema `s`.  mode: min | max | rand.  `force` may pin {"null": True}."""
    rng = tok.rng
    if depth > 60:
        raise Bottomless()
    if not isinstance(s, dict):
        return any_value(tok)
    if "$ref" in s:
        return instance(resolve(s, comps), comps, tok, mode, depth + 1, force)
    deep = depth > 4
    if force and force.get("null"):
        return None
    if nullable(s, comps) and not deep and mode == "rand" and rng.random() < 0.2 and any(k in s for k in ("type", "enum", "oneOf", "anyOf", "allOf", "nullable")):
        return None
    if "enum" in s:
        vals = [v for v in s["enum"] if v is not None]
        return rng.choice(vals) if vals else None
    if "const" in s:
        return s["const"]
    for k in ("oneOf", "anyOf"):
        if s.get(k):
            members = [m for m in s[k] if not is_null_schema(m)]
            if not members:
                return None
            m = members[0] if (mode == "min" or deep) else rng.choice(members)
            if force and force.get("branch") is not None:
                m = members[force["branch"] % len(members)]  # systematic branch coverage (the caller counts)
            v = instance(m, comps, tok, mode, depth + 1)
            _flag_union_ambiguity(members, m, v, comps, tok, k)
            return v
    t = s.get("type")
    if isinstance(t, list):
        ts = [x for x in t if x != "null"]
        if not ts:
            return None
        t1 = ts[0] if mode == "min" else rng.choice(ts)
        return instance({**s, "type": t1}, comps, tok, mode, depth)
    if s.get("allOf") and len(s["allOf"]) == 1 and "properties" not in s and not is_objectish(s["allOf"][0], comps):
        return instance(s["allOf"][0], comps, tok, mode, depth + 1)
    if t == "object" or s.get("allOf") or (t is None and s.get("properties")):
        mo = merged_object(s, comps)
        out = {}
        for name, schemas in mo["properties"].items():
            req = name in mo["required"]
            if not req:
                if mode == "min" or deep:
                    continue
                if mode == "rand" and rng.random() < 0.5:
                    continue
            # a property declared by several allOf members: use the narrowest (last enum/formatted/int wins)
            sch = narrowest(schemas, comps)
            out[name] = instance(sch, comps, tok, mode, depth + 1)
        addl = mo["additional"]
        if addl is not False and not deep and mode != "min":
            n = 2 if mode == "max" else rng.choice([0, 0, 1, 2])
            for _ in range(n):
                key = f"x-extra-{tok.next()}"
                out[key] = any_value(tok) if (addl is True or addl == {} or addl is None) else instance(addl, comps, tok, mode, depth + 1)
        return out
    if t == "array":
        items = s.get("items", {})
        pre = s.get("prefixItems") or []
        if pre:
            # tuple-style array (3.1): positional schemas first, `items` for the rest
            k_ = len(pre) if mode == "max" or "items" not in s else rng.randint(0, len(pre))
            out_ = [instance(p_, comps, tok, mode, depth + 1) for p_ in pre[: (0 if mode == "min" else k_)]]
            if "items" in s and len(out_) == len(pre) and mode != "min":
                out_ += [instance(items, comps, tok, mode, depth + 1) for _ in range(rng.choice([0, 1, 2]))]
            return out_
        n = 0 if (mode == "min" or deep) else (3 if mode == "max" else rng.choice([0, 1, 1, 2, 3]))
        return [instance(items, comps, tok, mode, depth + 1) for _ in range(n)]
    if t in ("string", "integer", "number", "boolean", "null"):
        return _typed_scalar(t, s.get("format"), tok)
    return any_value(tok)


def _flag_union_ambiguity(members: list, chosen: dict, v, comps: dict, tok: Tok, kw: str = "oneOf") -> None:
    """Record (in tok.flags) when the generated code's first-match decoding cannot tell the chosen member from an
    earlier one: the known-finding strata of DESIGN.md section 5 are keyed on these generator-known triggers.
    `oneof_ambiguous_instance` marks a value that validates against two oneOf members: it is *not* a valid
    instance of the schema and must not be used as one."""
    fmts = {resolve(m, comps).get("format") for m in members if resolve(m, comps).get("type") == "string"}
    if {"date", "date-time"} <= fmts and resolve(chosen, comps).get("format") in ("date", "date-time"):
        tok.flags.add("union_date_datetime")
    if isinstance(v, dict):
        for m in members:
            if m is chosen:
                continue
            if is_objectish(m, comps) and valid(m, v, comps):
                if kw == "oneOf":
                    tok.flags.add("oneof_ambiguous_instance")
                continue  # anyOf: matching several members is fine, decoding as any of them is legitimate
        for m in members:
            if m is chosen:
                break
            if is_objectish(m, comps) and merged_object(m, comps)["required"] <= set(v) and not valid(m, v, comps):
                # the earlier member does not admit the value (closed / typed additional properties, ill-typed
                # property) but its decoder does not validate and will take it
                tok.flags.add("union_model_shadowed")
    if isinstance(v, list):
        def _arr(m_):
            t_ = resolve(m_, comps).get("type")
            return t_ == "array" or (isinstance(t_, list) and "array" in t_)
        if sum(1 for m_ in members if _arr(m_)) >= 2:
            # the encoder dispatches on isinstance(x, list): it cannot tell two array members apart
            tok.flags.add("union_two_array_members")
    for m in members:
        rm = resolve(m, comps)
        if m is not chosen and rm == {}:
            tok.flags.add("union_with_any")


def narrowest(schemas: list, comps: dict) -> dict:
    if len(schemas) == 1:
        return schemas[0]
    best = schemas[0]
    for s in schemas[1:]:
        rs, rb = resolve(s, comps), resolve(best, comps)
        if "enum" in rs and ("enum" not in rb or set(map(repr, rs["enum"])) <= set(map(repr, rb["enum"]))):
            best = s
        elif rs.get("type") == "integer" and rb.get("type") == "number":
            best = s
        elif rs.get("format") and not rb.get("format") and "enum" not in rb:
            best = s
        elif rb == {}:
            best = s
    return best


def object_instances(s: dict, comps: dict, tok: Tok, n_rand: int = 6) -> list[tuple[str, dict, list]]:
    """Instances of an object schema by presence pattern: required-only, all, each optional alone, each nullable
    property null, each union branch, random subsets.  Returns (feature label, value, generator flags)."""
    out = []

    def emit(label, fn):
        tok.take_flags()
        v = fn()
        out.append((label, v, tok.take_flags()))

    emit("min", lambda: instance(s, comps, tok, "min"))
    emit("max", lambda: instance(s, comps, tok, "max"))
    mo = merged_object(s, comps)
    optional = [k for k in mo["properties"] if k not in mo["required"]]

    def with_prop(name, sub):
        v = instance(s, comps, tok, "min")
        if isinstance(v, dict):
            v[name] = sub()
        return v

    for name in optional[:8]:
        emit(f"only:{name}", lambda name=name: with_prop(name, lambda: instance(narrowest(mo["properties"][name], comps), comps, tok, "rand", 1)))
    for name, schemas in list(mo["properties"].items())[:10]:
        sch = narrowest(schemas, comps)
        if nullable(sch, comps) and any(k in resolve(sch, comps) or k in sch for k in ("type", "enum", "oneOf", "anyOf", "allOf", "nullable")):
            emit(f"null:{name}", lambda name=name: with_prop(name, lambda: None))
    for name, schemas in list(mo["properties"].items())[:10]:
        sch = resolve(narrowest(schemas, comps), comps)
        members = [m for k in ("oneOf", "anyOf") for m in sch.get(k, []) if not is_null_schema(m)]
        if isinstance(sch.get("type"), list):
            members = [{**sch, "type": t} for t in sch["type"] if t != "null"]
        kw_ = "anyOf" if sch.get("anyOf") and not sch.get("oneOf") else "oneOf"
        for i, m in enumerate(members[:5]):
            def sub(m=m, members=members, kw_=kw_):
                v = instance(m, comps, tok, "rand", 1)
                _flag_union_ambiguity(members, m, v, comps, tok, kw_ if not isinstance(sch.get("type"), list) else "anyOf")
                return v
            emit(f"branch:{name}:{i}", lambda name=name, sub=sub: with_prop(name, sub))
    for i in range(n_rand):
        emit("rand", lambda: instance(s, comps, tok, "rand"))
    return out


# =============================================================================================== validator (subset)
def valid(s, v, comps: dict, depth: int = 0) -> bool:
    import datetime as _dt
    import uuid as _uuid
    if not isinstance(s, dict) or depth > 40:
        return True
    if "$ref" in s:
        return valid(resolve(s, comps), v, comps, depth + 1)
    if v is None:
        return nullable(s, comps)
    if "enum" in s:
        return any(type(e) is type(v) and e == v for e in s["enum"])
    if "const" in s:
        return type(s["const"]) is type(v) and s["const"] == v
    if s.get("oneOf"):
        return sum(1 for m in s["oneOf"] if valid(m, v, comps, depth + 1)) >= 1
    if s.get("anyOf"):
        return any(valid(m, v, comps, depth + 1) for m in s["anyOf"])
    t = s.get("type")
    if isinstance(t, list):
        return any(valid({**s, "type": x}, v, comps, depth) for x in t)
    if s.get("allOf") and not is_objectish(s, comps):
        return all(valid(m, v, comps, depth + 1) for m in s["allOf"])
    if t == "object" or s.get("allOf") or (t is None and s.get("properties")):
        if not isinstance(v, dict):
            return False
        mo = merged_object(s, comps)
        if not mo["required"] <= set(v):
            return False
        for k, x in v.items():
            if k in mo["properties"]:
                if not all(valid(ps, x, comps, depth + 1) for ps in mo["properties"][k]):
                    return False
            elif mo["additional"] is False:
                return False
            elif isinstance(mo["additional"], dict) and not valid(mo["additional"], x, comps, depth + 1):
                return False
        return True
    if t == "array":
        pre = s.get("prefixItems") or []
        return isinstance(v, list) and all(valid(pre[k_] if k_ < len(pre) else s.get("items", {}), i, comps, depth + 1) for k_, i in enumerate(v))
    if t == "string":
        if not isinstance(v, str):
            return False
        try:
            if s.get("format") == "date":
                _dt.date.fromisoformat(v)
            elif s.get("format") == "date-time":
                _dt.datetime.fromisoformat(v)
            elif s.get("format") == "uuid":
                _uuid.UUID(v)
        except ValueError:
            return False
        return True
    if t == "integer":
        return isinstance(v, int) and not isinstance(v, bool)
    if t == "number":
        return isinstance(v, (int, float)) and not isinstance(v, bool)
    if t == "boolean":
        return isinstance(v, bool)
    if t == "null":
        return v is None
    return True


# =============================================================================================== schema generation
SCALAR_KINDS = ["str", "int", "num", "bool", "date", "datetime", "uuid", "strfmt"]


class Gen:
    """Random document generator.  `hostile` selects the name alphabet; `version` the notation family."""

    def __init__(self, rng: random.Random, version: str | None = None, hostile: float = 0.0, max_depth: int = 3, defaults: float = 0.12):
        self.rng = rng
        self.defaults = defaults
        self.version = version or rng.choice(["3.0.3", "3.1.0"])
        self.v31 = self.version.startswith("3.1")
        self.hostile = hostile
        self.max_depth = max_depth
        self.comps: dict[str, dict] = {}
        self.model_names: list[str] = []
        self.enum_names: list[str] = []
        self.other_names: list[str] = []
        self.used: set = set()
        self.features: set[str] = set()
        self.inline_titles = 0

    # ---- names
    def name(self, style=None) -> str:
        if self.hostile and self.rng.random() < self.hostile:
            for _ in range(50):
                n = names.hostile(self.rng)
                k = names.collide_key(n) or n
                if k not in self.used and n.strip() and "/" not in n and "~" not in n and "#" not in n:
                    self.used.add(k)
                    self.features.add("name:hostile")
                    return n
        return names.unique_benign(self.rng, self.used, style)

    def prop_names(self, n: int) -> list[str]:
        out, local = [], set()
        for _ in range(n):
            for _ in range(50):
                if self.hostile and self.rng.random() < self.hostile:
                    c = names.hostile(self.rng)
                    self.features.add("name:hostile")
                else:
                    c = names.benign(self.rng)
                k = names.collide_key(c) or c
                if k not in local:
                    local.add(k)
                    out.append(c)
                    break
        return out

    # ---- scalars
    def scalar(self, kind: str | None = None) -> dict:
        kind = kind or self.rng.choice(SCALAR_KINDS)
        self.features.add("kind:" + kind)
        return {
            "str": {"type": "string"}, "int": {"type": "integer"}, "num": {"type": "number"}, "bool": {"type": "boolean"},
            "date": {"type": "string", "format": "date"}, "datetime": {"type": "string", "format": "date-time"},
            "uuid": {"type": "string", "format": "uuid"}, "strfmt": {"type": "string", "format": self.rng.choice(["email", "byte", "password", "int64"])},
        }[kind].copy()

    def enum(self, base: str | None = None, with_null: bool = False, ascii_only: bool = False, path_safe: bool = False) -> dict:
        base = base or self.rng.choice(["str", "str", "int"])
        if base == "str":
            pool = ["red", "green", "blue", "dark blue", "x-large", "2nd", "ok", "snake_case", "UPPER", "Mixed", "with.dot", "a1"] + ([] if ascii_only else ["é"]) + ([] if path_safe else ["N/A"])
            vals = self.rng.sample(pool, self.rng.randint(1, 4))
            # avoid values that coincide after upper-casing / sanitising (Enum-style key collisions are C14's business)
            seen, out = set(), []
            for v in vals:
                k = names.collide_key(v).upper()
                if k and k not in seen:
                    seen.add(k)
                    out.append(v)
            vals = out or ["red"]
            s = {"type": "string", "enum": vals}
        else:
            vals = self.rng.sample([0, 1, 2, 3, -1, -7, 10, 200, 404], self.rng.randint(1, 4))
            s = {"type": "integer", "enum": vals}
        self.features.add("kind:enum_" + base)
        if with_null:
            s["enum"] = s["enum"] + [None]
            if self.v31:
                s["type"] = [s["type"], "null"]
            else:
                s["nullable"] = True
            self.features.add("null:enum_member")
        return s

    def with_default(self, s: dict) -> dict:
        """A valid `default` (canonical spelling) on a plain scalar / enum schema, with probability self.defaults."""
        if not self.defaults or self.rng.random() >= self.defaults or not isinstance(s, dict) or not s or any(k in s for k in ("$ref", "oneOf", "anyOf", "allOf", "const", "default", "items", "properties")):
            return s
        t = s.get("type")
        if isinstance(t, list):
            t = next((x for x in t if x != "null"), None)
        if t not in ("string", "integer", "number", "boolean") or s.get("format") == "binary":
            return s
        if "enum" in s:
            vals = [v for v in s["enum"] if v is not None]
            if not vals:
                return s
            v = self.rng.choice(vals)
        else:
            v = instance({k: x for k, x in s.items() if k not in ("nullable",)} | {"type": t}, {}, Tok(self.rng), "max")
            if v is None or isinstance(v, (list, dict)):
                return s
        self.features.add("default:" + ("enum" if "enum" in s else str(s.get("format") or t)))
        return dict(s, default=v)

    def make_nullable(self, s: dict) -> dict:
        if s == {} or "const" in s:
            return s
        if "enum" in s:
            if None not in s["enum"]:
                s = dict(s, enum=s["enum"] + [None])
                if self.v31 and isinstance(s.get("type"), str):
                    s["type"] = [s["type"], "null"]
                elif not self.v31:
                    s["nullable"] = True
            self.features.add("null:enum_member")
            return s
        if self.v31:
            if isinstance(s.get("type"), str) and "$ref" not in s:
                self.features.add("null:typelist")
                return dict(s, type=[s["type"], "null"])
            if s.get("oneOf") and "type" not in s:
                self.features.add("null:union_member")
                return dict(s, oneOf=s["oneOf"] + [{"type": "null"}])
            if s.get("anyOf") and "type" not in s:
                self.features.add("null:union_member")
                return dict(s, anyOf=s["anyOf"] + [{"type": "null"}])
            self.features.add("null:union_member")
            return {"oneOf": [s, {"type": "null"}]}
        self.features.add("null:nullable30")
        if "$ref" in s:
            return {"nullable": True, "allOf": [s]}
        return dict(s, nullable=True)

    # ---- composite
    def schema(self, depth: int = 0, allow_obj: bool = True, allow_union: bool = True, in_model: str | None = None) -> dict:
        r = self.rng.random()
        d = depth >= self.max_depth
        if r < 0.34 or (d and r < 0.7):
            return self.scalar()
        if r < 0.42:
            return self.enum()
        if r < 0.46:
            self.features.add("kind:const")
            return {"const": self.rng.choice(["fixed", "v1", 7, True, 2.5])} if self.v31 or True else {}
        if r < 0.50:
            self.features.add("kind:any")
            return {}
        if r < 0.64 and (self.model_names or self.enum_names or self.other_names):
            tgt = self.rng.choice(self.model_names + self.enum_names + self.other_names)
            self.features.add("kind:ref")
            ref = {"$ref": f"#/components/schemas/{tgt}"}
            w = self.rng.random()
            if w < 0.12:
                self.features.add("wrap:allOf1")
                return {"allOf": [ref]}
            if w < 0.18:
                self.features.add("wrap:oneOf1")
                return {"oneOf": [ref]}
            return ref
        if d:
            return self.scalar()
        if r < 0.76:
            self.features.add("kind:array")
            it = self.schema(depth + 1, allow_obj, allow_union)
            if self.rng.random() < 0.15:
                it = self.make_nullable(it)
                self.features.add("array:nullable_items")
            return {"type": "array", "items": it}
        if r < 0.86 and allow_union:
            return self.union(depth)
        if allow_obj:
            return self.object(depth + 1, inline=True)
        return self.scalar()

    def union(self, depth: int) -> dict:
        self.features.add("kind:union")
        k = self.rng.choice(["oneOf", "anyOf", "typelist" if self.v31 else "oneOf"])
        if k == "typelist":
            ts = self.rng.sample(["string", "integer", "number", "boolean"], 2)
            if set(ts) == {"integer", "number"}:
                ts = ["integer", "string"]
            self.features.add("union:typelist")
            return {"type": ts}
        members = []
        kinds_used = set()
        for _ in range(self.rng.randint(2, 3)):
            r = self.rng.random()
            if r < 0.45:
                kk = self.rng.choice(["str", "int", "bool", "date", "num", "uuid", "datetime"])
                jt = {"str": "s", "date": "s2", "uuid": "s3", "datetime": "s4", "int": "n", "num": "n", "bool": "b"}[kk]
                if jt in kinds_used or ("s" in kinds_used and jt.startswith("s")) or (jt == "s" and any(x.startswith("s") for x in kinds_used)):
                    continue
                kinds_used.add(jt)
                members.append(self.scalar(kk))
            elif r < 0.7 and self.model_names and "o" not in kinds_used:
                kinds_used.add("o")
                members.append({"$ref": f"#/components/schemas/{self.rng.choice(self.model_names)}"})
                self.features.add("union:model")
            elif r < 0.85 and "a" not in kinds_used:
                kinds_used.add("a")
                it = self.scalar(self.rng.choice(["str", "int", "date"]))
                if self.rng.random() < 0.25:
                    it = self.make_nullable(it)
                    self.features.add("union:array_nullable_items")
                members.append({"type": "array", "items": it})
                self.features.add("union:array")
            elif "e" not in kinds_used and "s" not in kinds_used and not any(x.startswith("s") for x in kinds_used):
                kinds_used.add("e")
                kinds_used.add("s")
                members.append(self.enum("str"))
        if len(members) < 2:
            members = [self.scalar("int"), self.scalar("str")]
        return {k: members}

    def object(self, depth: int = 0, inline: bool = False, n_props: int | None = None) -> dict:
        n = self.rng.randint(0, 5) if n_props is None else n_props
        props = {}
        for pn in self.prop_names(n):
            s = self.schema(depth, allow_obj=depth < self.max_depth)
            if self.rng.random() < 0.2:
                s = self.make_nullable(s)
            if self.rng.random() < 0.15 and isinstance(s, dict) and "$ref" not in s and s:
                s = dict(s, description=f"desc of {pn}")
            props[pn] = self.with_default(s)
        req = [p for p in props if self.rng.random() < 0.45]
        o: dict = {"type": "object", "properties": props}
        if req:
            o["required"] = req
        r = self.rng.random()
        if r < 0.15:
            o["additionalProperties"] = False
            self.features.add("addl:false")
        elif r < 0.35:
            o["additionalProperties"] = self.rng.choice([self.scalar(self.rng.choice(["int", "str", "date", "datetime", "uuid"])), self.enum(),
                                                         {"type": "array", "items": self.scalar("str")}] +
                                                        ([{"$ref": f"#/components/schemas/{self.rng.choice(self.model_names)}"}] if self.model_names else []))
            self.features.add("addl:typed")
        elif r < 0.4:
            o["additionalProperties"] = True
        if inline and self.rng.random() < 0.15:
            self.inline_titles += 1
            o["title"] = f"Titled{self.inline_titles}" + self.name("pascal")
        if inline:
            self.features.add("kind:inline_object")
        return o

    def components(self, n: int) -> None:
        plan = []
        for _ in range(n):
            r = self.rng.random()
            plan.append("model" if r < 0.62 else "enum" if r < 0.8 else "allof" if r < 0.9 else "other")
        names_ = [self.name("pascal") for _ in plan]
        # forward references: register all names first so that schemas can refer to later components too
        for nm, k in zip(names_, plan):
            (self.model_names if k in ("model", "allof") else self.enum_names if k == "enum" else self.other_names).append(nm)
        forward_ok = list(self.model_names)
        for idx, (nm, k) in enumerate(zip(names_, plan)):
            if k == "model":
                o = self.object(0)
                # required direct refs to models only to *earlier* components (finite instances); others optional
                for pn, ps in list(o["properties"].items()):
                    tgt = self._direct_model_ref(ps)
                    if tgt is not None and pn in o.get("required", []) and names_.index(tgt) >= idx:
                        o["required"].remove(pn)
                        self.features.add("ref:forward_or_self")
                if self.rng.random() < 0.2:
                    o["description"] = f"Model {nm} description"
                self.comps[nm] = o
            elif k == "enum":
                self.comps[nm] = self.enum()
            elif k == "allof":
                parents = [m for m in self.model_names if m != nm and self.comps.get(m, {}).get("allOf") is None]
                parents = [p for p in parents if names_.index(p) < idx or self.rng.random() < 0.5]
                if not parents:
                    self.comps[nm] = self.object(0)
                    continue
                ps = self.rng.sample(parents, min(len(parents), self.rng.choice([1, 1, 2])))
                members: list = [{"$ref": f"#/components/schemas/{p}"} for p in ps]
                if self.rng.random() < 0.7:
                    members.append(self.object(1, n_props=self.rng.randint(1, 3)))
                    members[-1].pop("additionalProperties", None)
                    if self.rng.random() < 0.4:
                        # a member may require a property it inherits from a sibling member (valid JSON Schema)
                        inherited = [k for p_ in ps for k in merged_object(self.comps.get(p_, {}), self.comps)["properties"] if k not in merged_object(self.comps.get(p_, {}), self.comps)["required"]]
                        if inherited:
                            inherited = sorted(set(inherited))
                            for k_ in self.rng.sample(inherited, min(len(inherited), self.rng.choice([1, 2, 3, 4]))):
                                members[-1].setdefault("required", []).append(k_)
                            self.features.add("allOf:requires_inherited")
                self.rng.shuffle(members)
                self.comps[nm] = {"allOf": members}
                self.features.add("kind:allOf")
                if any(names_.index(p) > idx for p in ps):
                    self.features.add("allOf:parent_after_child")
            else:
                self.comps[nm] = self.rng.choice([{"type": "array", "items": self.schema(1)}, self.scalar(), self.union(1)])
                self.features.add("kind:alias_component")
        self._fix_allof_conflicts()
        self._break_required_cycles()

    def _direct_model_ref(self, s):
        s0 = s
        if isinstance(s, dict):
            subs = s.get("allOf", []) + s.get("oneOf", []) + s.get("anyOf", [])
            if len(subs) == 1 and "$ref" in subs[0]:
                s = subs[0]
        if isinstance(s, dict) and "$ref" in s:
            t = s["$ref"].rsplit("/", 1)[-1]
            if t in self.model_names and not nullable(s0, self.comps):
                return t
        return None

    def _fix_allof_conflicts(self):
        """allOf members must not declare the same property name with different schemas (that is C15's workload)."""
        for nm, s in self.comps.items():
            if "allOf" not in s:
                continue
            seen: dict[str, dict] = {}
            for m in s["allOf"]:
                if "$ref" in m:
                    tgt = m["$ref"].rsplit("/", 1)[-1]
                    for k, v in merged_object(self.comps.get(tgt, {}), self.comps)["properties"].items():
                        seen.setdefault(k, v[0])
            for m in s["allOf"]:
                if "$ref" in m:
                    continue
                for k in list(m.get("properties", {})):
                    if k in seen or any(names.collide_key(k) == names.collide_key(o) for o in seen):
                        m["properties"].pop(k)
                        if k in m.get("required", []):
                            m["required"].remove(k)
            # python-name collisions between inherited properties of different parents
            keys: dict[str, str] = {}
            drop = []
            for m in s["allOf"]:
                if "$ref" not in m:
                    continue
                tgt = m["$ref"].rsplit("/", 1)[-1]
                for k in merged_object(self.comps.get(tgt, {}), self.comps)["properties"]:
                    ck = names.collide_key(k) or k
                    if ck in keys and keys[ck] != k:
                        drop.append(m)
                        break
                    keys[ck] = k
            for m in drop:
                if len(s["allOf"]) > 1:
                    s["allOf"].remove(m)

    def _break_required_cycles(self):
        """Every component must have a finite minimal instance: strip `required` from properties whose schema
        mentions a model reference wherever a required reference cycle exists."""
        def mentions_model(x) -> bool:
            if isinstance(x, dict):
                if "$ref" in x and x["$ref"].rsplit("/", 1)[-1] not in self.enum_names:
                    return True
                return any(mentions_model(v) for v in x.values())
            if isinstance(x, list):
                return any(mentions_model(v) for v in x)
            return False

        def strip(x):
            if isinstance(x, dict):
                if isinstance(x.get("properties"), dict) and x.get("required"):
                    x["required"] = [k for k in x["required"] if k in x["properties"] and not mentions_model(x["properties"].get(k, {}))]
                    if not x["required"]:
                        x.pop("required")
                for v in x.values():
                    strip(v)
            elif isinstance(x, list):
                for v in x:
                    strip(v)

        for _ in range(12):
            bad = []
            for nm, sch in self.comps.items():
                try:
                    instance(sch, self.comps, Tok(random.Random(0)), "min")
                except (Bottomless, RecursionError):
                    bad.append(nm)
            if not bad:
                return
            self.features.add("ref:required_cycle_broken")
            for nm in bad:
                strip(self.comps[nm])
            # requiredness can also come from allOf parents: strip those too
            for nm in bad:
                for m in self.comps[nm].get("allOf", []) if isinstance(self.comps[nm], dict) else []:
                    if "$ref" in m:
                        t = m["$ref"].rsplit("/", 1)[-1]
                        if t in self.comps:
                            strip(self.comps[t])

    # ---- operations
    def param_schema(self, loc: str) -> dict:
        r = self.rng.random()
        if loc == "header":
            kinds = ["str", "int", "num", "bool"]
            if r < 0.05:
                return self.scalar("uuid")
            if r < 0.7:
                return self.scalar(self.rng.choice(kinds))
            return self.enum(ascii_only=True)
        if loc == "cookie":
            if r < 0.7:
                return self.scalar("str")
            if r < 0.8:
                return self.scalar(self.rng.choice(["int", "bool", "num", "date", "uuid"]))
            return self.enum("str", ascii_only=True)
        if loc == "path":
            if r < 0.7:
                return self.scalar(self.rng.choice(["str", "int", "num", "uuid", "date", "bool"]))
            return self.enum(path_safe=True)
        # query: richest
        if r < 0.45:
            return self.scalar()
        if r < 0.6:
            return self.enum()
        if r < 0.78:
            self.features.add("param:array")
            return {"type": "array", "items": self.rng.choice([self.scalar(self.rng.choice(["str", "int", "date", "num", "bool", "uuid"])), self.enum()])}
        if r < 0.86:
            self.features.add("param:union")
            return {"oneOf": [self.scalar("int"), self.scalar("str")]} if self.rng.random() < 0.5 else {"anyOf": [self.scalar("bool"), self.scalar("num")]}
        if r < 0.92 and self.enum_names:
            return {"$ref": f"#/components/schemas/{self.rng.choice(self.enum_names)}"}
        if r < 0.96:
            return self.make_nullable(self.scalar(self.rng.choice(["str", "int", "date"])))
        return {"const": "fixed"}

    def operation(self, idx: int, used_ops: set) -> tuple[str, str, dict]:
        rng = self.rng
        n_path = rng.choice([0, 0, 1, 1, 2, 3])
        pnames = rng.sample(names.PATH_PARAM_SAFE, n_path)
        segs = [f"seg{idx}"]
        for pn in pnames:
            if rng.random() < 0.5:
                segs.append(rng.choice(["items", "by", "v1", "sub-path"]))
            segs.append("{" + pn + "}")
        if rng.random() < 0.3:
            segs.append("tail")
        path = "/" + "/".join(segs)
        method = rng.choice(METHODS if rng.random() < 0.3 else ["get", "post", "put", "delete", "patch"])
        op: dict = {"responses": {}}
        if rng.random() < 0.8:
            for _ in range(20):
                oid = self.name(rng.choice(["camel", "snake", "kebab", "pascal"]))
                if names.collide_key(oid) not in used_ops:
                    used_ops.add(names.collide_key(oid))
                    op["operationId"] = oid
                    break
        if rng.random() < 0.6:
            op["tags"] = [rng.choice(["pets", "Store Front", "admin-ops", "v2", "users"])] + (["second"] if rng.random() < 0.2 else [])
        params = []
        decl = list(pnames)
        rng.shuffle(decl)  # declared order differs from path order
        for pn in decl:
            params.append({"name": pn, "in": "path", "required": True, "schema": self.param_schema("path")})
        local = {(names.collide_key(p) or p) for p in pnames}
        for loc in ("query", "header", "cookie"):
            for _ in range(rng.choice([0, 0, 1, 2, 3] if loc == "query" else [0, 0, 0, 1, 2])):
                for _ in range(20):
                    if loc == "header":
                        nm = rng.choice(["X-Request-Id", "x-trace", "Accept-Language", "If-Match", "X-Rate-Limit", "x_custom", "X-A"]) if rng.random() < 0.7 else "X-" + names.benign(rng, "kebab")
                    else:
                        nm = names.hostile(rng) if (self.hostile and rng.random() < self.hostile) else names.benign(rng)
                        if loc == "cookie" and not all(c.isalnum() and c.isascii() or c in "-_." for c in nm):
                            continue  # cookie names are ASCII tokens
                    k = names.collide_key(nm) or nm
                    if k not in local and nm.strip():
                        local.add(k)
                        break
                else:
                    continue
                p = {"name": nm, "in": loc, "schema": self.with_default(self.param_schema(loc))}
                if rng.random() < 0.4:
                    p["required"] = True
                if rng.random() < 0.1:
                    p["description"] = f"param {nm}"
                params.append(p)
                self.features.add("param:" + loc)
        if rng.random() < 0.08 and params:
            # same name in a different location
            src = rng.choice(params)
            if src["in"] in ("query", "cookie") and src["schema"].get("type") == "string" and src["name"].isascii() and all(c.isalnum() or c in "-_." for c in src["name"]):
                other = "cookie" if src["in"] == "query" else "query"
                if not any(p["name"] == src["name"] and p["in"] == other for p in params):
                    params.append({"name": src["name"], "in": other, "schema": {"type": "string"}})
                    self.features.add("param:same_name_two_locations")
        if params:
            op["parameters"] = params
        if method in ("post", "put", "patch", "delete") and rng.random() < 0.7 or rng.random() < 0.1:
            op["requestBody"] = self.request_body()
        if rng.random() < 0.3:
            op["security"] = [{"bearer": []}]
            self.features.add("op:security")
        op["responses"] = self.responses()
        if rng.random() < 0.3:
            op["summary"] = f"Summary of op {idx}"
        if rng.random() < 0.2:
            op["description"] = f"Longer description of operation number {idx}."
        return path, method, op

    def body_schema_json(self) -> dict:
        r = self.rng.random()
        if r < 0.4 and self.model_names:
            return {"$ref": f"#/components/schemas/{self.rng.choice(self.model_names)}"}
        if r < 0.6:
            return self.object(1, inline=True)
        if r < 0.75 and self.model_names:
            self.features.add("body:array_of_model")
            return {"type": "array", "items": {"$ref": f"#/components/schemas/{self.rng.choice(self.model_names)}"}}
        if r < 0.85:
            self.features.add("body:array_scalar")
            return {"type": "array", "items": self.scalar(self.rng.choice(["str", "int", "date"]))}
        return self.scalar(self.rng.choice(["str", "int", "bool", "num"]))

    def flat_object(self, files: bool = False) -> dict:
        props = {}
        for pn in self.prop_names(self.rng.randint(1, 4)):
            r = self.rng.random()
            if files and r < 0.35:
                props[pn] = {"type": "string", "format": "binary"}
                self.features.add("body:file_part")
            elif r < 0.8:
                props[pn] = self.scalar(self.rng.choice(["str", "int", "bool", "num", "date"]))
            else:
                props[pn] = self.enum()
        o = {"type": "object", "properties": props}
        req = [p for p in props if self.rng.random() < 0.5]
        if req:
            o["required"] = req
        # nested / null extras have no defined form or multipart encoding: extras are strings or forbidden
        o["additionalProperties"] = self.rng.choice([False, {"type": "string"}])
        return o

    def request_body(self) -> dict:
        rng = self.rng
        content = {}
        kinds = rng.sample(["json", "json", "form", "multipart", "octet", "plusjson"], rng.choice([1, 1, 1, 2]))
        for k in kinds:
            if k == "json":
                content["application/json"] = {"schema": self.body_schema_json()}
            elif k == "plusjson":
                content["application/vnd.api+json"] = {"schema": self.body_schema_json()}
                self.features.add("body:+json")
            elif k == "form":
                content["application/x-www-form-urlencoded"] = {"schema": self.flat_object()}
                self.features.add("body:form")
            elif k == "multipart":
                if self.model_names and rng.random() < 0.25:
                    # a component in two roles: multipart body here, JSON value elsewhere
                    content["multipart/form-data"] = {"schema": {"$ref": f"#/components/schemas/{rng.choice(self.model_names)}"}}
                    self.features.add("body:multipart_component")
                else:
                    content["multipart/form-data"] = {"schema": self.flat_object(files=True)}
                self.features.add("body:multipart")
            else:
                content["application/octet-stream"] = {"schema": {"type": "string", "format": "binary"}}
                self.features.add("body:octet")
        if len(content) > 1:
            self.features.add("body:multi")
        b = {"content": content}
        if rng.random() < 0.5:
            b["required"] = True
        return b

    def response_schema(self) -> dict:
        r = self.rng.random()
        if r < 0.35 and self.model_names:
            return {"$ref": f"#/components/schemas/{self.rng.choice(self.model_names)}"}
        if r < 0.5 and self.model_names:
            return {"type": "array", "items": {"$ref": f"#/components/schemas/{self.rng.choice(self.model_names)}"}}
        if r < 0.6:
            return self.object(1, inline=True)
        if r < 0.7 and len(self.model_names) >= 2:
            a, b = self.rng.sample(self.model_names, 2)
            self.features.add("resp:union_models")
            return {"oneOf": [{"$ref": f"#/components/schemas/{a}"}, {"$ref": f"#/components/schemas/{b}"}]}
        if r < 0.85:
            return self.scalar()
        if r < 0.92:
            return self.enum()
        return {"type": "array", "items": self.scalar()}

    def responses(self) -> dict:
        rng = self.rng
        out = {}
        for st in rng.sample([200, 201, 202, 204, 400, 401, 404, 409, 422, 500, 503], rng.choice([1, 1, 2, 3, 4])):
            r = rng.random()
            resp: dict = {"description": f"status {st}"}
            if st == 204 or r < 0.15:
                pass
            elif r < 0.75:
                mt = rng.choice(["application/json", "application/json", "application/problem+json", "application/json; charset=utf-8"])
                resp["content"] = {mt: {"schema": self.response_schema()}}
            elif r < 0.85:
                resp["content"] = {rng.choice(["text/plain", "text/html"]): {"schema": {"type": "string"}}}
                self.features.add("resp:text")
            elif r < 0.92:
                resp["content"] = {"application/octet-stream": {"schema": {"type": "string", "format": "binary"}}}
                self.features.add("resp:binary")
            elif r < 0.95:
                # a binary schema under a text / JSON media type: still a file object built from the served bytes, and it
                # must not disturb the responses parsed after it
                resp["content"] = {rng.choice(["text/csv", "application/json", "text/plain"]): {"schema": {"type": "string", "format": "binary"}}}
                self.features.add("resp:binary_under_text")
            else:
                resp["content"] = {"application/json": {}}
            if "content" in resp and rng.random() < 0.2:
                # several media types for one status: the first *supported* one decides reader and schema together
                first = rng.choice([{"text/plain": {}}, {"application/xml": {"schema": {"type": "string"}}}, {"text/csv": {"schema": {"type": "string"}}}, {"application/octet-stream": {}}])
                resp["content"] = {**first, **resp["content"]} if rng.random() < 0.7 else {**resp["content"], **first}
                self.features.add("resp:multi_media")
            out[str(st)] = resp
        return out

    def document(self, n_schemas: int | None = None, n_ops: int | None = None) -> dict:
        doc = base_doc(self.version, title=self.name("pascal") if self.rng.random() < 0.5 else "Verif API")
        self.components(self.rng.randint(1, 10) if n_schemas is None else n_schemas)
        used_ops: set = set()
        for i in range(self.rng.randint(0, 8) if n_ops is None else n_ops):
            path, method, op = self.operation(i, used_ops)
            doc["paths"].setdefault(path, {})[method] = op
        doc["components"]["schemas"] = self.comps
        # several methods on one path, with some parameters declared at path-item level (parsed once per operation)
        for path in list(doc["paths"]):
            item = doc["paths"][path]
            if "{" in path or self.rng.random() > 0.3:
                continue
            have = [m for m in METHODS if m in item]
            others = [m for m in ("get", "post", "put", "delete", "patch") if m not in have]
            if not others:
                continue
            _, _, op2 = self.operation(1000 + len(doc["paths"]), used_ops)
            op2["parameters"] = [p_ for p_ in op2.get("parameters", []) if p_.get("in") != "path"]
            if not op2["parameters"]:
                op2.pop("parameters")
            item[others[0]] = op2
            first = item[have[0]]
            movable = [p_ for p_ in first.get("parameters", []) if p_.get("in") in ("query", "header") and not any(q.get("name") == p_["name"] and q.get("in") == p_["in"] for q in op2.get("parameters", []))]
            if movable and self.rng.random() < 0.7:
                mv = self.rng.sample(movable, min(len(movable), 2))
                first["parameters"] = [p_ for p_ in first["parameters"] if p_ not in mv]
                if not first["parameters"]:
                    first.pop("parameters")
                item["parameters"] = mv
                self.features.add("param:path_item_level_shared")
            self.features.add("path:two_methods")
        if any(isinstance(op, dict) and "security" in op for pi in doc["paths"].values() for op in pi.values()):
            doc["components"]["securitySchemes"] = {"bearer": {"type": "http", "scheme": "bearer"}}
        return doc


def random_doc(seed_parts, hostile: float = 0.0, **kw) -> tuple[dict, set]:
    rng = random.Random(":".join(map(str, seed_parts)))
    g = Gen(rng, hostile=hostile, version=kw.pop("version", None), **({"defaults": kw.pop("defaults")} if "defaults" in kw else {}))
    doc = g.document(**kw)
    return doc, g.features


def iter_ops(doc: dict):
    for path, item in (doc.get("paths") or {}).items():
        if not isinstance(item, dict):
            continue
        for m in METHODS:
            if isinstance(item.get(m), dict):
                yield path, m, item[m], item


def clone(x):
    return copy.deepcopy(x)


# =============================================================================================== feature matrix
def _N():
    return {"type": "object", "properties": {"k": {"type": "string"}, "when": {"type": "string", "format": "date"}}, "required": ["k"]}


def _N2():
    return {"type": "object", "properties": {"j": {"type": "integer"}, "tags": {"type": "array", "items": {"type": "string"}}}, "required": ["j"]}


def matrix_kinds(v31: bool) -> dict:
    """kind label -> schema (seed-independent).  Uses components N, N2, E, IE, Alias, Base."""
    R = lambda n: {"$ref": f"#/components/schemas/{n}"}  # noqa: E731
    kinds = {
        "str": {"type": "string"}, "int": {"type": "integer"}, "num": {"type": "number"}, "bool": {"type": "boolean"},
        "date": {"type": "string", "format": "date"}, "datetime": {"type": "string", "format": "date-time"}, "uuid": {"type": "string", "format": "uuid"},
        "strfmt": {"type": "string", "format": "email"},
        "enum_str": {"type": "string", "enum": ["red", "dark blue", "2nd"]}, "enum_int": {"type": "integer", "enum": [0, 7, -3]},
        "const_str": {"const": "fixed"}, "const_int": {"const": 7}, "const_bool": {"const": True},
        "any": {},
        "array_str": {"type": "array", "items": {"type": "string"}}, "array_int": {"type": "array", "items": {"type": "integer"}},
        "array_model": {"type": "array", "items": R("N")}, "array_date": {"type": "array", "items": {"type": "string", "format": "date"}},
        "array_enum": {"type": "array", "items": R("E")}, "array_union": {"type": "array", "items": {"oneOf": [R("N"), {"type": "string"}]}},
        "array_array": {"type": "array", "items": {"type": "array", "items": {"type": "string", "format": "uuid"}}},
        "ref_model": R("N"), "ref_enum": R("E"), "ref_int_enum": R("IE"), "ref_alias": R("Alias"), "ref_allof": R("Composed"),
        "inline_obj": {"type": "object", "properties": {"a": {"type": "string"}, "b": {"type": "integer"}}, "required": ["a"]},
        "inline_obj_closed": {"type": "object", "properties": {"a": {"type": "string"}}, "additionalProperties": False},
        "dict_int": {"type": "object", "additionalProperties": {"type": "integer"}},
        "dict_model": {"type": "object", "additionalProperties": R("N")},
        "dict_date": {"type": "object", "properties": {"fixed": {"type": "string"}}, "additionalProperties": {"type": "string", "format": "date"}},
        "union_scalar": {"oneOf": [{"type": "integer"}, {"type": "string"}]}, "union_any_of": {"anyOf": [{"type": "boolean"}, {"type": "number"}]},
        "union_model_array": {"oneOf": [R("N"), {"type": "array", "items": {"type": "integer"}}]},
        "union_models": {"oneOf": [R("N"), R("N2")]}, "union_date_str": {"oneOf": [{"type": "string", "format": "date"}, {"type": "integer"}]},
        "union_enum_int": {"anyOf": [R("E"), {"type": "integer"}]},
        "union_const_int": {"oneOf": [{"const": "fixed"}, {"type": "integer"}]}, "union_consts": {"oneOf": [{"const": "a"}, {"const": 7}]},
        "wrap_allof": {"allOf": [R("N")]}, "wrap_oneof": {"oneOf": [R("E")]}, "ref_union": R("U"),
    }
    if v31:
        kinds["tuple_items"] = {"type": "array", "prefixItems": [{"type": "integer"}, {"type": "boolean"}], "items": {"type": "string", "format": "date"}}
        kinds["tuple_only"] = {"type": "array", "prefixItems": [{"type": "string", "format": "date"}, R("N")]}
        kinds["tuple_one"] = {"type": "array", "prefixItems": [R("E")], "items": R("E")}
        kinds["typelist"] = {"type": ["string", "integer"]}
        kinds["null"] = {"type": "null"}
    return kinds


def matrix_components() -> dict:
    return {"N": _N(), "N2": _N2(), "E": {"type": "string", "enum": ["a", "b c", "d-e"]}, "IE": {"type": "integer", "enum": [1, 2, -5]},
            "Alias": {"type": "string", "format": "date-time"}, "U": {"oneOf": [{"type": "integer"}, {"type": "string", "format": "uuid"}]},
            "Base": {"type": "object", "properties": {"base_id": {"type": "integer"}, "shared": {"type": "string"}}, "required": ["base_id"]},
            "Composed": {"allOf": [{"$ref": "#/components/schemas/Base"}, {"type": "object", "properties": {"extra_flag": {"type": "boolean"}}, "required": ["extra_flag"]}]}}


QUERY_OK = {"str", "int", "num", "bool", "date", "datetime", "uuid", "strfmt", "enum_str", "enum_int", "const_str", "array_str", "array_int", "array_date", "array_enum",
            "ref_enum", "ref_int_enum", "ref_alias", "union_scalar", "union_any_of", "typelist", "wrap_oneof", "union_enum_int", "any", "ref_union"}
HEADER_OK = {"str", "int", "num", "bool", "enum_str", "enum_int", "ref_enum", "ref_int_enum", "strfmt", "uuid", "union_scalar"}
COOKIE_OK = {"str", "enum_str", "ref_enum", "strfmt", "int", "num", "bool", "date", "uuid", "enum_int", "array_str"}
FORM_OK = {"str", "int", "num", "bool", "date", "datetime", "uuid", "strfmt", "enum_str", "enum_int", "const_str", "const_int", "array_str", "array_int", "ref_enum", "ref_int_enum", "ref_alias", "union_scalar"}
PATH_OK = {"str", "int", "num", "bool", "date", "uuid", "enum_str", "enum_int", "ref_enum", "ref_int_enum", "strfmt"}


def matrix_docs() -> list[tuple[str, dict]]:
    out = []
    for version in ("3.0.3", "3.1.0"):
        v31 = version.startswith("3.1")
        g = Gen(random.Random(0), version=version)
        for kind, schema in matrix_kinds(v31).items():
            doc = base_doc(version, title=f"Matrix {kind}")
            comps = matrix_components()
            props = {"req": clone(schema), "opt": clone(schema)}
            required = ["req"]
            if kind not in ("any", "null") and not kind.startswith("const") or (kind.startswith("const") and v31):
                nl = g.make_nullable(clone(schema))
                if nl != schema:
                    props["req_null"] = nl
                    props["opt_null"] = clone(nl)
                    required.append("req_null")
            comps["M"] = {"type": "object", "properties": props, "required": required}
            doc["components"]["schemas"] = comps
            paths = doc["paths"]
            ok200 = {"200": {"description": "ok"}}
            if kind in QUERY_OK:
                paths["/q"] = {"get": {"operationId": "q_op", "parameters": [{"name": "pr", "in": "query", "required": True, "schema": clone(schema)}, {"name": "p-o", "in": "query", "schema": clone(schema)}], "responses": ok200}}
            if kind in HEADER_OK:
                paths["/h"] = {"get": {"operationId": "h_op", "parameters": [{"name": "X-Pr", "in": "header", "required": True, "schema": clone(schema)}, {"name": "X-Po", "in": "header", "schema": clone(schema)}], "responses": ok200}}
            if kind in COOKIE_OK:
                paths["/c"] = {"get": {"operationId": "c_op", "parameters": [{"name": "cr", "in": "cookie", "required": True, "schema": clone(schema)}, {"name": "co", "in": "cookie", "schema": clone(schema)}], "responses": ok200}}
            if kind in PATH_OK:
                paths["/p/{pp}/end"] = {"get": {"operationId": "p_op", "parameters": [{"name": "pp", "in": "path", "required": True, "schema": clone(schema)}], "responses": ok200}}
            if kind not in ("null",):
                paths["/b"] = {"post": {"operationId": "b_op", "requestBody": {"required": True, "content": {"application/json": {"schema": clone(schema)}}},
                                        "responses": {"200": {"description": "ok", "content": {"application/json": {"schema": clone(schema)}}}, "404": {"description": "nf"}}}}
            if kind not in ("null",):
                # the kind as a part of a multipart body and (scalars / arrays of scalars) as a field of a form body
                comps["MP"] = {"type": "object", "properties": {"req": clone(schema), "opt": clone(schema), "plain": {"type": "string"}}, "required": ["req"]}
                paths["/mp"] = {"post": {"operationId": "mp_op", "requestBody": {"content": {"multipart/form-data": {"schema": {"$ref": "#/components/schemas/MP"}}}}, "responses": ok200}}
                if kind in FORM_OK:
                    comps["MF"] = {"type": "object", "properties": {"req": clone(schema), "opt": clone(schema), "plain": {"type": "string"}}, "required": ["req"]}
                    paths["/form"] = {"post": {"operationId": "form_op", "requestBody": {"content": {"application/x-www-form-urlencoded": {"schema": {"$ref": "#/components/schemas/MF"}}}}, "responses": ok200}}
            paths["/m"] = {"put": {"operationId": "m_op", "security": [{"bearer": []}], "requestBody": {"content": {"application/json": {"schema": {"$ref": "#/components/schemas/M"}}}},
                                   "responses": {"200": {"description": "ok", "content": {"application/json": {"schema": {"$ref": "#/components/schemas/M"}}}},
                                                 "201": {"description": "list", "content": {"application/json": {"schema": {"type": "array", "items": {"$ref": "#/components/schemas/M"}}}}}}}}
            out.append((f"{version}:{kind}", doc))
    return out


# =============================================================================================== structured sharing documents
def sharing_docs() -> list[tuple[str, dict]]:
    """Documents in which one component is used in several *roles* at once (JSON / multipart / form body in different
    operations, response, property, array item, union member, allOf parent, additionalProperties) and several models
    refer to the same shared schemas: order-sensitive bookkeeping (dependency roots, per-class flags) shows up when
    such documents are permuted or partly broken."""
    out = []
    R = lambda n: {"$ref": f"#/components/schemas/{n}"}  # noqa: E731
    ok = {"200": {"description": "ok"}}
    for variant in range(6):
        d = base_doc("3.0.3" if variant % 2 == 0 else "3.1.0", f"Sharing {variant}")
        S = {
            "Shared": {"type": "object", "properties": {"sid": {"type": "integer"}, "label": {"type": "string"}}, "required": ["sid"]},
            "Kind": {"type": "string", "enum": ["k1", "k2"]},
            "Doc": {"type": "object", "properties": {"title": {"type": "string"}, "pages": {"type": "integer"}, "kind": R("Kind")}, "required": ["title"]},
            "UserA": {"type": "object", "properties": {"shared": R("Shared"), "a": {"type": "string"}}},
            "UserB": {"type": "object", "properties": {"b": {"type": "integer"}, "shared": R("Shared"), "kind": R("Kind")}},
            "UserList": {"type": "object", "properties": {"items": {"type": "array", "items": R("Shared")}}},
            "UserUnion": {"type": "object", "properties": {"u": {"oneOf": [R("Shared"), {"type": "string"}]}}},
            "UserDict": {"type": "object", "additionalProperties": R("Shared")},
            "Child": {"allOf": [R("UserA"), {"type": "object", "properties": {"extra": {"type": "boolean"}}}]},
            "GrandChild": {"allOf": [R("Child"), {"type": "object", "properties": {"more": {"type": "string"}}}]},
            "Wrapper": {"type": "object", "properties": {"child": R("Child"), "doc": R("Doc")}},
        }
        keys = list(S)
        k = variant % len(keys)
        keys = keys[k:] + keys[:k]
        if variant >= 3:
            keys.reverse()
        d["components"]["schemas"] = {x: S[x] for x in keys}
        P = {
            "/docs/upload": {"post": {"operationId": "upload_doc", "requestBody": {"content": {"multipart/form-data": {"schema": R("Doc")}}}, "responses": ok}},
            "/docs/json": {"post": {"operationId": "create_doc", "requestBody": {"content": {"application/json": {"schema": R("Doc")}}}, "responses": {"200": {"description": "ok", "content": {"application/json": {"schema": R("Doc")}}}}}},
            "/docs/form": {"put": {"operationId": "form_doc", "requestBody": {"content": {"application/x-www-form-urlencoded": {"schema": R("Doc")}}}, "responses": ok}},
            "/shared": {"get": {"operationId": "get_shared", "parameters": [{"name": "kind", "in": "query", "schema": R("Kind")}], "responses": {"200": {"description": "ok", "content": {"application/json": {"schema": {"type": "array", "items": R("Shared")}}}}}}},
            "/users/a": {"get": {"operationId": "get_a", "responses": {"200": {"description": "ok", "content": {"application/json": {"schema": R("UserA")}}}, "404": {"description": "nf", "content": {"application/json": {"schema": R("Shared")}}}}}},
            "/users/child": {"patch": {"operationId": "patch_child", "requestBody": {"content": {"application/json": {"schema": R("Child")}, "multipart/form-data": {"schema": R("UserB")}}}, "responses": {"200": {"description": "ok", "content": {"application/json": {"schema": R("GrandChild")}}}}}},
        }
        d["components"]["responses"] = {"Problem": {"description": "problem", "content": {"application/json": {"schema": {"type": "object", "properties": {"code": {"type": "integer"}, "detail": {"type": "object", "properties": {"why": {"type": "string"}}}}}}}},
                                        "Plain": {"description": "plain", "content": {"text/plain": {"schema": {"type": "string"}}}}}
        d["components"]["requestBodies"] = {"DocBody": {"content": {"application/json": {"schema": {"type": "object", "properties": {"inline_title": {"type": "string"}}}}}}}
        for pth, mth in (("/users/a", "get"), ("/shared", "get"), ("/docs/form", "put")):
            P[pth][mth]["responses"]["409"] = {"$ref": "#/components/responses/Problem"}
            P[pth][mth]["responses"]["410"] = {"$ref": "#/components/responses/Plain"}
        P["/docs/by-ref"] = {"post": {"operationId": "body_by_ref", "requestBody": {"$ref": "#/components/requestBodies/DocBody"}, "responses": ok}}
        P["/docs/by-ref2"] = {"put": {"operationId": "body_by_ref_two", "requestBody": {"$ref": "#/components/requestBodies/DocBody"}, "parameters": [{"name": "pageSize", "in": "query", "schema": {"type": "integer"}}, {"name": "X-Trace-Id", "in": "header", "schema": {"type": "string"}}],
                                      "responses": {"200": {"description": "ok"}, "204": {"description": "none"}, "201": {"description": "typed", "content": {"application/json": {"schema": R("Doc")}}}}},
                              "parameters": [{"name": "X-Trace-Id", "in": "header", "schema": {"type": "integer"}, "required": True}, {"name": "item-level", "in": "query", "schema": {"type": "string"}}]}
        common = {"name": "id", "in": "query", "schema": {"type": "string"}, "description": "common id filter"}
        common_enum = {"name": "order", "in": "query", "schema": {"type": "string", "enum": ["asc", "desc", None], "nullable": True}}
        P["/things/{id}"] = {"get": {"operationId": "get_thing", "parameters": [{"name": "id", "in": "path", "required": True, "schema": {"type": "integer"}}, clone(common), clone(common_enum)], "responses": ok},
                             "delete": {"operationId": "delete_thing", "parameters": [{"name": "id", "in": "path", "required": True, "schema": {"type": "integer"}}, clone(common_enum)], "responses": ok}}
        P["/things"] = {"get": {"operationId": "search_things", "parameters": [clone(common), clone(common_enum)], "responses": ok}, "post": {"operationId": "make_thing", "parameters": [clone(common)], "responses": ok},
                        "parameters": [{"name": "X-Order", "in": "header", "schema": {"type": "string", "enum": ["a", "b", None], "nullable": True}}]}
        # names that need a prefix (leading digit / underscore) used as a tag and, in other path items, as parameter, property and operation id
        #   (each such name meets its second role only while the paths are parsed, never in components.schemas)
        P["/2fa/enroll"] = {"post": {"operationId": "enroll", "tags": ["2fa"], "responses": ok}}
        P["/login"] = {"get": {"operationId": "login", "tags": ["auth"], "parameters": [{"name": "2fa", "in": "query", "schema": {"type": "string"}}], "responses": ok}}
        P["/meta"] = {"get": {"operationId": "_meta", "tags": ["auth"], "responses": ok}, "put": {"operationId": "put_meta", "tags": ["_meta"], "responses": ok}}
        P["/one"] = {"get": {"operationId": "get_one", "tags": ["1"], "responses": ok},
                     "post": {"operationId": "post_one", "tags": ["auth"], "responses": {"200": {"description": "ok", "content": {"application/json": {"schema": {"type": "object", "properties": {"1": {"type": "boolean"}}}}}}}}}
        # a composed model whose inline member requires several properties its referenced parent declares optional
        d["components"]["schemas"]["Numbered"] = {"type": "object", "properties": {"4x": {"type": "string"}, "_hidden": {"type": "integer"}, "9": {"type": "boolean"}}}
        d["components"]["schemas"]["StrictDoc"] = {"allOf": [R("Doc"), {"type": "object", "required": ["pages", "kind", "title", "summary"], "properties": {"summary": {"type": "string"}}}]}
        d["components"]["schemas"]["StrictNumbered"] = {"allOf": [{"required": ["9", "_hidden", "4x"]}, R("Numbered")]}
        # overriding is by (name, location) only: a path-item parameter whose *identifier* equals an operation parameter's is a
        # different parameter; an operation-level name used in two locations still overrides the path-item one in its location
        P["/search"] = {"parameters": [{"name": "user_id", "in": "query", "schema": {"type": "string"}}, {"name": "limit", "in": "query", "schema": {"type": "integer"}},
                                       {"name": "X-Dry-Run", "in": "header", "schema": {"type": "boolean", "default": False}}],
                        "get": {"operationId": "search_all", "parameters": [{"name": "userId", "in": "query", "schema": {"type": "string"}}, {"name": "limit", "in": "query", "schema": {"type": "string"}},
                                                                            {"name": "X-Page-Size", "in": "header", "schema": {"type": "integer", "default": 20}},
                                                                            {"name": "X-Mode", "in": "header", "schema": {"type": "string", "default": "fast"}},
                                                                            {"name": "sid", "in": "cookie", "schema": {"type": "string", "default": "anon"}}], "responses": ok}}
        P["/items"] = {"parameters": [{"name": "id", "in": "query", "schema": {"type": "integer"}}, {"name": "X-Trace-Id", "in": "header", "schema": {"type": "string"}}],
                       "get": {"operationId": "list_items", "parameters": [{"name": "id", "in": "query", "schema": {"type": "string"}}, {"name": "id", "in": "header", "schema": {"type": "string"}}], "responses": ok},
                       "post": {"operationId": "make_item", "parameters": [{"name": "X-Trace-Id", "in": "cookie", "schema": {"type": "string"}}], "responses": ok}}
        # reusable parameters used by several operations, one of which also has the same name in another location
        d["components"]["parameters"] = {"Version": {"name": "version", "in": "query", "schema": {"type": "string"}},
                                         "Trace": {"name": "X-Trace", "in": "header", "schema": {"type": "string", "enum": ["on", "off"]}}}
        d["components"]["parameters"].update({"TraceHeader": {"name": "trace-id", "in": "header", "schema": {"type": "string"}}, "TraceQuery": {"name": "trace_id", "in": "query", "schema": {"type": "string"}},
                                              "TenantCookie": {"name": "tenant", "in": "cookie", "schema": {"type": "string"}}, "TenantQuery": {"name": "tenant", "in": "query", "schema": {"type": "string"}}})
        P["/by-header"] = {"get": {"operationId": "by_header", "parameters": [{"$ref": "#/components/parameters/TraceHeader"}, {"$ref": "#/components/parameters/TenantCookie"}], "responses": ok}}
        P["/by-query"] = {"get": {"operationId": "by_query", "parameters": [{"$ref": "#/components/parameters/TraceQuery"}, {"$ref": "#/components/parameters/TenantQuery"}], "responses": ok}}
        PV, PT = {"$ref": "#/components/parameters/Version"}, {"$ref": "#/components/parameters/Trace"}
        P["/versions"] = {"get": {"operationId": "list_versions", "parameters": [PV, PT], "responses": ok}}
        P["/archive/{version}/things"] = {"get": {"operationId": "list_archived", "parameters": [{"name": "version", "in": "path", "required": True, "schema": {"type": "integer"}}, PV], "responses": ok},
                                          "parameters": [PT]}
        P["/versions/latest"] = {"get": {"operationId": "latest_version", "parameters": [PV, {"name": "X-Trace", "in": "cookie", "schema": {"type": "string"}}, PT], "responses": ok}}
        pk = list(P)
        pk = pk[variant % len(pk):] + pk[:variant % len(pk)]
        d["paths"] = {x: P[x] for x in pk}
        out.append((f"sharing:{variant}", d))
    # schema *objects* that are processed more than once: a single-member wrapper (oneOf / anyOf / allOf around one reference) on a reusable parameter, on a
    # path-item parameter inherited by several operations, and as a component alias declared before its target (processed again in the retry round)
    for variant in range(3):
        kw = ["oneOf", "anyOf", "allOf"][variant]
        okw = {"200": {"description": "ok"}}
        d = base_doc("3.0.3" if variant % 2 == 0 else "3.1.0", f"Sharing wrappers {variant}")
        d["components"]["schemas"] = {"Alias": {kw: [R("Target")]}, "EnumAlias": {kw: [R("Code")]}, "Holder": {"type": "object", "properties": {"a": R("Alias"), "e": R("EnumAlias"), "w": {kw: [R("Target")]}, "l": {"type": "array", "items": {kw: [R("Code")]}}}},
                                      "Target": {"type": "object", "properties": {"t": {"type": "string"}}, "required": ["t"]}, "Code": {"type": "string", "enum": ["c1", "c2"]},
                                      "Later": {"type": "object", "properties": {"again": R("Alias"), "code": R("EnumAlias")}}}
        if variant % 2 == 1:
            tup = {"type": "array", "prefixItems": [{"type": "integer"}, {"type": "boolean"}], "items": {"type": "string", "format": "date"}}
            d["components"]["schemas"]["Pair"] = clone(tup)
            d["components"]["schemas"]["Holder"]["properties"]["pair"] = R("Pair")
            d["components"]["schemas"]["Later"]["properties"]["pair2"] = R("Pair")
            # (the inline member comes first: its properties are processed before the still unprocessed parent ends the attempt, and again in the retry round)
            d["components"]["schemas"]["Early"] = {"allOf": [{"type": "object", "properties": {"tup": clone(tup), "tupm": {"type": "array", "prefixItems": [{"type": "string"}], "items": R("Code")}}}, R("Target")]}
            d["components"]["schemas"] = {"Early": d["components"]["schemas"].pop("Early"), **d["components"]["schemas"]}
        d["components"]["parameters"] = {"CodeParam": {"name": "code", "in": "query", "schema": {kw: [R("Code")]}}, "When": {"name": "when", "in": "query", "schema": {("oneOf" if kw == "allOf" else kw): [{"type": "string", "format": "date"}]}}}
        CP, WP = {"$ref": "#/components/parameters/CodeParam"}, {"$ref": "#/components/parameters/When"}
        TP = None
        if variant % 2 == 1:
            d["components"]["parameters"]["Tup"] = {"name": "tup", "in": "query", "schema": clone(tup)}
            TP = {"$ref": "#/components/parameters/Tup"}
        J = lambda sch: {"200": {"description": "ok", "content": {"application/json": {"schema": sch}}}}  # noqa: E731
        d["paths"] = {"/alpha": {"get": {"operationId": "list_alpha", "parameters": [CP, WP], "responses": J(R("Holder"))}}, "/beta": {"get": {"operationId": "list_beta", "parameters": [CP], "responses": J(R("Alias"))}},
                      "/gamma/{gid}": {"parameters": [{"name": "kind", "in": "query", "schema": {kw: [R("Code")]}}, {"name": "gid", "in": "path", "required": True, "schema": {"type": "string"}}],
                                       "get": {"operationId": "get_gamma", "responses": J(R("Later"))}, "put": {"operationId": "put_gamma", "parameters": [WP], "requestBody": {"content": {"application/json": {"schema": {kw: [R("Target")]}}}}, "responses": okw},
                                       "delete": {"operationId": "delete_gamma", "parameters": [CP], "responses": okw}}}
        if TP:
            # a tuple-style array (prefixItems + items) on a reusable parameter used by operations of different paths and on a path-item parameter
            d["paths"]["/alpha"]["get"]["parameters"].append(TP)
            d["paths"]["/beta"]["get"]["parameters"].append(TP)
            d["paths"]["/gamma/{gid}"]["parameters"].append({"name": "pt", "in": "query", "schema": clone(tup)})
            d["paths"]["/gamma/{gid}"]["delete"]["parameters"].append(TP)
        out.append((f"sharing:wrappers{variant}", d))
    return out


def docs_clone(x):
    return clone(x)


def interplay_docs() -> list[tuple[str, dict]]:
    """Small documents, each combining two features whose generated code meets in one signature / class body / module
    namespace (defaults x argument order, reserved argument names x bodies, inherited defaults x narrowing, class
    names x builtins, tags / operation ids x package module names)."""
    out = []
    ok = {"200": {"description": "ok"}}
    R = lambda n: {"$ref": f"#/components/schemas/{n}"}  # noqa: E731

    def mk(label, schemas=None, paths=None, version="3.0.3"):
        d = base_doc(version, "Interplay " + label)
        d["components"]["schemas"] = schemas or {}
        d["paths"] = paths or {}
        out.append((f"interplay:{label}", d))
    # path parameters with defaults in each position of the argument list
    for pos in range(3):
        ps = [{"name": n, "in": "path", "required": True, "schema": dict({"type": "integer"} if i != 1 else {"type": "string"}, **({"default": 5 if i != 1 else "five"} if i == pos else {}))} for i, n in enumerate(["a", "b", "c"])]
        mk(f"path_default_{pos}", paths={"/x/{a}/{b}/{c}": {"get": {"operationId": f"path_default_{pos}", "parameters": ps + [{"name": "q", "in": "query", "required": True, "schema": {"type": "string"}}], "responses": ok}}})
    # parameters spelled like the arguments the templates reserve, in each location, with and without a body
    for nm in ("body", "client", "Client", "CLIENT", "url", "kwargs", "response", "_client", "client_"):
        for loc in ("query", "header", "path"):
            path = "/r/{%s}" % nm if loc == "path" else "/r"
            op = {"operationId": f"res_{loc}", "parameters": [{"name": nm, "in": loc, "required": loc == "path", "schema": {"type": "string"}}], "responses": ok,
                  "requestBody": {"content": {"application/json": {"schema": {"type": "object", "properties": {"b": {"type": "string"}}}}}}}
            mk(f"reserved_{nm}_{loc}", paths={path: {"post": op, "get": {k: v for k, v in op.items() if k != "requestBody"} | {"operationId": f"res_{loc}_nobody"}}})
    # an allOf member narrowing / re-declaring an inherited property that has a default
    E3, E2 = {"type": "string", "enum": ["a", "b", "c"]}, {"type": "string", "enum": ["a", "b"]}
    for label, parent_p, child_p in (("enum_narrowed_default_on_parent", dict(E3, default="a"), E2), ("enum_narrowed_default_on_child", E3, dict(E2, default="b")), ("enum_narrowed_default_lost", dict(E3, default="c"), E2),
                                     ("int_over_number_default", {"type": "number", "default": 3}, {"type": "integer"}), ("date_over_string_default", {"type": "string", "default": "2020-01-02"}, {"type": "string", "format": "date"}),
                                     ("enum_over_string_default", {"type": "string", "default": "a"}, E2), ("array_items_narrowed", {"type": "array", "items": {"type": "number"}}, {"type": "array", "items": {"type": "integer"}}),
                                     ("array_items_models", {"type": "array", "items": R("Item")}, {"type": "array", "items": R("Item")}), ("ref_enum_default", dict(allOf=[R("Colour")], default="red"), R("Colour"))):
        for order in (0, 1):
            members = [R("Parent"), {"type": "object", "properties": {"p": child_p, "own": {"type": "string"}}}]
            S = {"Item": {"type": "object", "properties": {"k": {"type": "string"}}}, "Colour": {"type": "string", "enum": ["red", "green"]},
                 "Parent": {"type": "object", "properties": {"p": parent_p}}, "Child": {"allOf": members if order == 0 else members[::-1]}, "GrandChild": {"allOf": [R("Child"), {"type": "object", "properties": {"g": {"type": "integer"}}}]}}
            mk(f"{label}_{order}", schemas=S)
    # classes named after builtins / typing names / the package's own modules, as model and as enum
    for nm in ("Type", "Format", "Filter", "Range", "List", "Dict", "Union", "Any", "Unset", "File", "Response", "Client", "None", "Optional", "Literal", "cast", "datetime", "UUID", "Enum", "str", "int", "T", "types", "errors", "models"):
        S = {nm: {"type": "string", "enum": ["x", "y"]}, nm + "Model" if nm[0].isupper() else "Holder": {"type": "object", "properties": {"e": R(nm), "l": {"type": "array", "items": R(nm)}, "when": {"type": "string", "format": "date-time"}, "u": {"type": "string", "format": "uuid"}}}}
        mk(f"enum_named_{nm}", schemas=S, paths={"/e": {"get": {"operationId": "get_e", "parameters": [{"name": "e", "in": "query", "schema": R(nm)}], "responses": {"200": {"description": "ok", "content": {"application/json": {"schema": R(nm)}}}}}}})
        S2 = {nm: {"type": "object", "properties": {"a": {"type": "string"}, "self_ref": R(nm), "day": {"type": "string", "format": "date"}}}, "Holder": {"type": "object", "properties": {"m": R(nm), "ms": {"type": "array", "items": R(nm)}, "u": {"oneOf": [R(nm), {"type": "integer"}]}}}}
        mk(f"model_named_{nm}", schemas=S2, paths={"/m": {"post": {"operationId": "post_m", "requestBody": {"content": {"application/json": {"schema": R(nm)}}}, "responses": {"200": {"description": "ok", "content": {"application/json": {"schema": R(nm)}}}}}}})
    # two enum declarations deriving one class name whose values differ only in what member naming erases (case, punctuation, leading digits)
    for label, v1, v2 in (("case_punct", ["On-Hold", "open"], ["on_hold", "open"]), ("case", ["active", "idle"], ["Active", "IDLE"]), ("positional", ["1-queued", "2-done"], ["3-failed", "4-gone"]),
                          ("subset", ["queued", "running", "done"], ["queued", "running"]), ("superset", ["queued", "running"], ["queued", "running", "done"]), ("equal", ["queued", "done"], ["queued", "done"]),
                          ("int_subset", [1, 2, 3], [1, 2]), ("overlap", ["queued", "running"], ["running", "done"])):
        for order in (0, 1):
            t_ = "string" if isinstance(v1[0], str) else "integer"
            S = {"TicketState": {"type": t_, "enum": v1}, "Holder": {"type": "object", "properties": {"s": R("TicketState"), "l": {"type": "array", "items": R("TicketState")}}, "required": ["s"]},
                 "Ticket": {"type": "object", "properties": {"state": {"type": t_, "enum": v2}, "id": {"type": "integer"}}},
                 # two *inline* enums deriving one class name (Job + state_kind, JobState + kind)
                 "Job": {"type": "object", "properties": {"state_kind": {"type": t_, "enum": v1}, "n": {"type": "integer"}}}, "JobState": {"type": "object", "properties": {"kind": {"type": t_, "enum": v2}}}}
            if order:
                S = {k_: S[k_] for k_ in ("JobState", "Ticket", "Holder", "TicketState", "Job")}
            mk(f"enum_same_class_name_{label}_{order}", schemas=S)
    # nullable beside an explicit type and a single-element wrapper around a reference / a formatted string
    for version in ("3.0.3", "3.1.0"):
        nul = (lambda t: {"type": t, "nullable": True}) if version == "3.0.3" else (lambda t: {"type": [t, "null"]})
        S = {"Dog": {"type": "object", "properties": {"bark": {"type": "integer"}}},
             "Holder": {"type": "object", "required": ["ra"], "properties": {
                 "a": dict(nul("object"), allOf=[R("Dog")]), "c": dict(nul("object"), oneOf=[R("Dog")]), "e": dict(nul("object"), anyOf=[R("Dog")]), "ra": dict(nul("object"), allOf=[R("Dog")]),
                 "day": dict(nul("string"), allOf=[{"type": "string", "format": "date"}]), "plain": dict(nul("object"), properties={"k": {"type": "string"}})}}}
        mk(f"typed_nullable_wrapper_{version}", schemas=S, version=version)
    # an allOf child that re-declares inherited optional properties (bare / with a description / narrowed) and makes them mandatory:
    # the parent, processed before or after the child, keeps its own optional properties
    for order in (0, 1, 2):
        parent = {"type": "object", "properties": {"name": {"type": "string"}, "born": {"type": "string", "format": "date"}, "age": {"type": "integer"}, "tags": {"type": "array", "items": {"type": "string"}},
                                                   "pet": R("Item"), "score": {"type": "number"}, "kind": {"type": "string", "enum": ["a", "b"]}, "flag": {"type": "boolean"}, "uid": {"type": "string", "format": "uuid"}}}
        bare = {"type": "object", "required": ["name", "born", "tags", "pet", "kind", "flag", "uid"],
                "properties": {"name": {"type": "string"}, "born": {"type": "string", "format": "date"}, "tags": {"type": "array", "items": {"type": "string"}}, "pet": R("Item"), "kind": {"type": "string", "enum": ["a", "b"]},
                               "flag": {"type": "boolean"}, "uid": {"type": "string", "format": "uuid"}}}
        described = {"type": "object", "required": ["name", "age"], "properties": {"name": {"type": "string", "description": "again"}, "age": {"type": "integer", "example": 3}}}
        narrowed = {"type": "object", "required": ["score", "name"], "properties": {"score": {"type": "integer"}, "name": {"type": "string", "enum": ["x", "y"]}}}
        only_required = {"required": ["age", "born"]}
        S = {"Item": {"type": "object", "properties": {"k": {"type": "string"}}}, "Parent": parent, "ChildBare": {"allOf": [R("Parent"), bare]}, "ChildDescribed": {"allOf": [R("Parent"), described]},
             "ChildNarrowed": {"allOf": [R("Parent"), narrowed]}, "ChildOnlyRequired": {"allOf": [R("Parent"), only_required]}, "ChildReversed": {"allOf": [docs_clone(bare), R("Parent")]},
             "GrandChild": {"allOf": [R("ChildBare"), {"type": "object", "properties": {"g": {"type": "integer"}}}]}, "Sibling": {"allOf": [R("Parent"), {"type": "object", "properties": {"s": {"type": "string"}}}]}}
        if order == 1:
            S = {k_: S[k_] for k_ in reversed(list(S))}
        elif order == 2:
            S = {k_: S[k_] for k_ in ("ChildBare", "Item", "Sibling", "Parent", "ChildReversed", "ChildNarrowed", "GrandChild", "ChildDescribed", "ChildOnlyRequired")}
        mk(f"redeclared_required_{order}", schemas=S, paths={"/p": {"post": {"operationId": "post_p", "requestBody": {"content": {"application/json": {"schema": R("Parent")}}},
                                                                              "responses": {"200": {"description": "ok", "content": {"application/json": {"schema": R("ChildBare")}}}}}}})
    # unions that collapse to one member (a single inline object / the same reference twice / a one-element type list): annotated as the member,
    # decoded and encoded through the union machinery (isinstance checks need the member class at run time)
    for version in ("3.0.3", "3.1.0"):
        for kw in ("oneOf", "anyOf"):
            inl = {"type": "object", "properties": {"sku": {"type": "string"}, "qty": {"type": "integer"}}, "required": ["sku"]}
            props = {"single_inline": {kw: [clone(inl)]}, "single_ref": {kw: [R("Item")]}, "same_ref_twice": {kw: [R("Item"), R("Item")]}, "entries": {"type": "array", "items": {kw: [clone(inl)]}},
                     "ref_entries": {"type": "array", "items": {kw: [R("Item"), R("Item")]}}, "single_enum": {kw: [R("Colour")]}, "single_date": {kw: [{"type": "string", "format": "date"}]},
                     "nullable_single_inline": dict({kw: [clone(inl)]}, **({"nullable": True} if version == "3.0.3" else {})), "extras": {"type": "object", "additionalProperties": {kw: [clone(inl)]}}}
            if version == "3.1.0":
                props["one_type_list"] = {"type": ["object"], "properties": {"a": {"type": "string"}}}
                props["one_type_list_items"] = {"type": "array", "items": {"type": ["object"], "properties": {"b": {"type": "integer"}}}}
                props["nullable_single_inline"] = {kw: [clone(inl), {"type": "null"}]}
            S = {"Item": {"type": "object", "properties": {"k": {"type": "string"}}}, "Colour": {"type": "string", "enum": ["red", "green"]}, "Basket": {"type": "object", "required": ["single_inline", "entries"], "properties": props}}
            mk(f"single_member_union_{kw}_{version}", schemas=S, version=version,
               paths={"/b": {"post": {"operationId": "create_basket", "requestBody": {"content": {"application/json": {"schema": R("Basket")}}}, "responses": {"200": {"description": "ok", "content": {"application/json": {"schema": R("Basket")}}}}}}})
    # names that differ as text but derive the same Python identifier, used in *different* scopes (models, operations) for references to one
    # component: each scope keeps its own spelling on the wire
    spell = ["accountCode", "account_code", "Account-Code", "account code", "ACCOUNT_CODE", "account.code"]
    S = {"Code": {"type": "string", "enum": ["a1", "b2"]}, "Stamp": {"type": "string", "format": "date-time"}, "Inner": {"type": "object", "properties": {"k": {"type": "string"}}}}
    P = {}
    for i_, nm in enumerate(spell):
        S[f"Holder{i_}"] = {"type": "object", "required": [nm], "properties": {nm: R("Code"), f"when {i_}"[: 4 + i_ % 2]: R("Stamp"), "inner": R("Inner")}}
        S[f"Opt{i_}"] = {"type": "object", "properties": {nm: R("Code"), nm + "2": R("Inner")}}
        P[f"/acct/{i_}"] = {"get": {"operationId": f"get_acct_{i_}", "parameters": [{"name": nm if " " not in nm and "." not in nm else nm.replace(" ", "_x_").replace(".", "_y_"), "in": "query", "required": i_ % 2 == 0, "schema": R("Code")},
                                                                               {"name": "since", "in": "query", "schema": R("Stamp")}],
                                    "responses": {"200": {"description": "ok", "content": {"application/json": {"schema": R(f"Holder{i_}")}}}}}}
    mk("same_identifier_other_spelling", schemas=S, paths=P)
    # tags and operation ids named after the package's own modules and dunder files
    for tag in ("types", "errors", "client", "models", "api", "init", "__init__", "default", "py.typed", "import", "None"):
        mk(f"tag_{tag}", schemas={"M": {"type": "object", "properties": {"a": {"type": "string"}}}},
           paths={"/t": {"get": {"operationId": "get_t", "tags": [tag], "responses": {"200": {"description": "ok", "content": {"application/json": {"schema": R("M")}}}}}},
                  "/u": {"get": {"operationId": tag, "tags": ["ops"], "responses": ok}}, "/v": {"get": {"operationId": tag, "tags": [tag], "responses": ok}}})
    return out


def rare_feature_docs() -> list[tuple[str, dict]]:
    """Valid documents built around rarely used or 3.1-specific features, one feature group per document."""
    R = lambda n: {"$ref": f"#/components/schemas/{n}"}  # noqa: E731
    ok = {"200": {"description": "ok"}}
    out = []

    def mk(label, version, schemas=None, paths=None, **extra):
        d = base_doc(version, "Rare " + label)
        d["components"]["schemas"] = schemas or {}
        d["paths"] = paths or {}
        for k_, v_ in extra.items():
            d["components"][k_] = v_
        out.append((f"rare:{label}:{version}", d))
    for version in ("3.0.3", "3.1.0"):
        inner = {"properties": {"k": {"type": "string"}}}
        mk("nullable_without_type", version, schemas={"Plain": dict(clone(inner), nullable=True), "Holder": {"type": "object", "properties": {"a": dict(clone(inner), nullable=True), "b": {"nullable": True, "properties": {"z": {"type": "integer"}}, "required": ["z"]},
                                                                                                                                     "c": {"nullable": True}, "d": {"nullable": True, "additionalProperties": {"type": "string"}}}}},
           paths={"/n": {"get": {"operationId": "get_n", "parameters": [{"name": "q", "in": "query", "schema": {"nullable": True}}], "responses": {"200": {"description": "ok", "content": {"application/json": {"schema": dict(clone(inner), nullable=True)}}}}}}})
        mk("additional_properties_forms", version, schemas={"T": {"type": "object", "additionalProperties": True}, "F": {"type": "object", "properties": {"a": {"type": "string"}}, "additionalProperties": False}, "E": {"type": "object", "additionalProperties": {}},
                                                            "N": {"additionalProperties": {"type": "integer"}}, "Req": {"type": "object", "required": ["ghost", "a"], "properties": {"a": {"type": "string"}}},
                                                            "Ro": {"type": "object", "properties": {"id": {"type": "integer", "readOnly": True}, "old": {"type": "string", "deprecated": True}, "w": {"type": "string", "writeOnly": True}}}})
        mk("operation_oddities", version, schemas={"M": {"type": "object", "properties": {"a": {"type": "string"}}}},
           paths={"/untagged": {"get": {"operationId": "get_untagged", "tags": [], "responses": ok}}, "/no-id": {"get": {"responses": ok}, "post": {"tags": ["x"], "responses": ok}},
                  "/item": {"summary": "an item", "description": "path item text", "servers": [{"url": "https://example.invalid"}], "get": {"operationId": "get_item_zq", "deprecated": True, "security": [{"a": []}, {"b": ["s"]}, {}], "responses": ok}},
                  "/statuses": {"get": {"operationId": "get_statuses", "responses": {"default": {"description": "any"}, "2XX": {"description": "range", "content": {"application/json": {"schema": R("M")}}}, "200": {"description": "ok", "content": {"application/json": {"schema": R("M")}}}}}},
                  "/styles": {"get": {"operationId": "get_styles", "parameters": [{"name": "ids", "in": "query", "style": "form", "explode": False, "schema": {"type": "array", "items": {"type": "integer"}}},
                                                                                     {"name": "obj", "in": "query", "style": "deepObject", "explode": True, "schema": {"type": "object", "properties": {"a": {"type": "string"}}}},
                                                                                     {"name": "flt", "in": "query", "content": {"application/json": {"schema": R("M")}}}, {"name": "X-List", "in": "header", "schema": {"type": "array", "items": {"type": "string"}}}], "responses": ok}},
                  "/sibling": {"get": {"operationId": "get_sibling", "responses": {"200": {"description": "ok", "content": {"application/json": {"schema": {"$ref": "#/components/schemas/M", "description": "text beside a reference"}}}}}}}})
        mk("reusable_sections", version, schemas={"M": {"type": "object", "properties": {"a": {"type": "string"}}}},
           paths={"/r": {"post": {"operationId": "post_r", "parameters": [{"$ref": "#/components/parameters/Lim"}], "requestBody": {"$ref": "#/components/requestBodies/Body"}, "responses": {"200": {"$ref": "#/components/responses/Ok"}, "404": {"$ref": "#/components/responses/Missing"}}}}},
           parameters={"Lim": {"name": "limit", "in": "query", "schema": {"type": "integer"}, "example": 3}}, requestBodies={"Body": {"content": {"application/json": {"schema": R("M")}}}},
           responses={"Ok": {"description": "ok", "headers": {"X-Rate": {"schema": {"type": "integer"}}}, "content": {"application/json": {"schema": R("M"), "examples": {"one": {"value": {"a": "x"}}}}}}, "Missing": {"description": "no"}},
           headers={"Rate": {"schema": {"type": "integer"}}})
    mk("tuples", "3.1.0", schemas={"Pair": {"type": "array", "prefixItems": [{"type": "string"}, R("M")]}, "M": {"type": "object", "properties": {"a": {"type": "string"}}},
                                   "Holder": {"type": "object", "properties": {"p": R("Pair"), "q": {"type": "array", "prefixItems": [{"type": "integer"}], "items": {"type": "string", "format": "date"}}, "e": {"type": "array", "prefixItems": []}}}})
    mk("type_lists", "3.1.0", schemas={"Holder": {"type": "object", "properties": {"a": {"type": ["string", "integer", "null"]}, "b": {"type": ["null"]}, "c": {"type": ["object", "array"], "items": {"type": "string"}, "properties": {"k": {"type": "string"}}},
                                                                                     "d": {"type": ["string"], "format": "date"}, "e": {"const": None}, "f": {"type": "null"}, "g": {"enum": [None]}, "h": {"type": ["number", "boolean"], "default": 2}}}})
    return out


def cross_tag_docs() -> list[tuple[str, dict]]:
    """Operations whose derived module names coincide across tags (getItem / get_item / get-item) but which differ in
    method, path, parameters, body and response; some carry several tags.  A module is unique per tag only."""
    R = lambda n: {"$ref": f"#/components/schemas/{n}"}  # noqa: E731
    out = []
    for version in ("3.0.3", "3.1.0"):
        d = base_doc(version, "Cross tag names")
        d["components"]["schemas"] = {"Item": {"type": "object", "required": ["sku"], "properties": {"sku": {"type": "string"}, "qty": {"type": "integer"}}},
                                      "Report": {"type": "object", "required": ["total"], "properties": {"total": {"type": "number"}, "lines": {"type": "array", "items": {"type": "string"}}}},
                                      "Note": {"type": "object", "properties": {"text": {"type": "string"}}}}
        J = lambda sch: {"application/json": {"schema": sch}}  # noqa: E731
        d["paths"] = {
            "/items/{item_id}": {"get": {"operationId": "getItem", "tags": ["sales", "catalog"], "parameters": [{"name": "item_id", "in": "path", "required": True, "schema": {"type": "integer"}}, {"name": "expand", "in": "query", "schema": {"type": "boolean"}}],
                                         "responses": {"200": {"description": "ok", "content": J(R("Item"))}}}},
            "/stock/item": {"delete": {"operationId": "get_item", "tags": ["stock"], "parameters": [{"name": "X-Reason", "in": "header", "schema": {"type": "string"}}], "responses": {"200": {"description": "ok", "content": J(R("Report"))}, "204": {"description": "gone"}}}},
            "/legacy/item": {"post": {"operationId": "get-item", "tags": ["legacy", "sales"], "requestBody": {"content": J(R("Note"))}, "responses": {"201": {"description": "made", "content": J(R("Note"))}}}},
            # same signature (no arguments), different documented responses
            "/summary": {"get": {"operationId": "getSummary", "tags": ["sales"], "responses": {"200": {"description": "ok", "content": J(R("Report"))}, "404": {"description": "none"}}}},
            "/stock/summary": {"get": {"operationId": "get_summary", "tags": ["stock"], "responses": {"200": {"description": "ok", "content": J(R("Item"))}, "202": {"description": "later", "content": J({"type": "array", "items": R("Note")})}}}},
            "/legacy/summary": {"get": {"operationId": "get-summary", "tags": ["legacy", "stock"], "responses": {"200": {"description": "ok", "content": {"text/plain": {"schema": {"type": "string"}}}}}}},
            "/reports": {"get": {"operationId": "getReport", "tags": ["sales"], "responses": {"200": {"description": "ok", "content": J(R("Report"))}}}},
            "/stock/reports/{day}": {"put": {"operationId": "get_report", "tags": ["stock", "legacy"], "parameters": [{"name": "day", "in": "path", "required": True, "schema": {"type": "string", "format": "date"}}],
                                              "requestBody": {"content": J({"type": "array", "items": R("Item")})}, "responses": {"200": {"description": "ok", "content": J({"type": "array", "items": R("Item")})}}}},
        }
        out.append((f"cross_tag:{version}", d))
    return out


def shared_enum_param_docs() -> list[tuple[str, dict]]:
    """An enum listing null, declared once and visited for several operations (path-item level, components/parameters,
    a component schema used by several parameters and properties): every use is nullable, not only the first."""
    out = []
    ok = {"200": {"description": "ok"}}
    for vals in (["asc", "desc"], [1, 2, 3], ["only"]):
        for version in ("3.0.3", "3.1.0", "3.0.3:plain", "3.1.0:plain"):
            t = "string" if isinstance(vals[0], str) else "integer"
            sch = {"type": [t, "null"], "enum": vals + [None]} if version.startswith("3.1") else {"type": t, "enum": vals + [None], "nullable": True}
            if version.endswith(":plain"):
                sch = {"type": t, "enum": vals + [None]}  # null only listed among the values: no nullable flag, no null type beside it
            d = base_doc(version.split(":")[0], "Shared Enum Parameters")
            d["components"]["parameters"] = {"Order": {"name": "order", "in": "query", "schema": clone(sch)}, "Mode": {"name": "mode", "in": "query", "schema": clone(sch)}}
            d["components"]["schemas"] = {"Dir": clone(sch), "Holder": {"type": "object", "properties": {"a": {"$ref": "#/components/schemas/Dir"}, "b": {"$ref": "#/components/schemas/Dir"}, "c": clone(sch)}, "required": ["b"]}}
            PO, PM = {"$ref": "#/components/parameters/Order"}, {"$ref": "#/components/parameters/Mode"}
            PD = {"name": "dir", "in": "query", "schema": {"$ref": "#/components/schemas/Dir"}}
            d["paths"] = {
                "/a": {"get": {"operationId": "a_get", "parameters": [PO], "responses": ok}, "post": {"operationId": "a_post", "parameters": [PO, PM, clone(PD)], "responses": ok}},
                "/b": {"parameters": [{"name": "sort", "in": "query", "schema": clone(sch)}], "get": {"operationId": "b_get", "responses": ok}, "put": {"operationId": "b_put", "parameters": [PM], "responses": ok},
                       "delete": {"operationId": "b_delete", "parameters": [clone(PD)], "responses": ok}},
                "/c": {"get": {"operationId": "c_get", "parameters": [PM, PO, dict(clone(PD), required=True)], "responses": {"200": {"description": "ok", "content": {"application/json": {"schema": {"$ref": "#/components/schemas/Holder"}}}}}}},
            }
            out.append((f"shared_enum_params:{t}{len(vals)}:{version}", d))
    return out


def union_model_docs() -> list[tuple[str, dict]]:
    """Models whose properties are unions of every pair / a few triples of member kinds (string / integer enums, models,
    arrays, formatted strings, scalars), required and optional, with and without null: the per-member type guards of
    the union decoder and encoder differ per kind and per enum style."""
    R = lambda n: {"$ref": f"#/components/schemas/{n}"}  # noqa: E731
    kinds = {"ma": R("Ua"), "mb": R("Ub"), "lm": {"type": "array", "items": R("Ua")}, "ls": {"type": "array", "items": {"type": "string"}}, "dt": {"type": "string", "format": "date-time"}, "i": {"type": "integer"},
             "b": {"type": "boolean"}, "e": R("Ue"), "u": {"type": "string", "format": "uuid"}, "ie": R("Uie"), "iei": {"type": "integer", "enum": [7, 8]}, "ei": {"type": "string", "enum": ["p", "q"]}, "s": {"type": "string"},
             "mu": R("Uu"), "mi": R("Ui"), "md": R("Ud"), "mn": R("Un")}
    # (mu / md / mn first: the earlier member's decoder meets a value of another JSON type under the same key and fails in its own way - UUID(5), isoparse(5), Ua.from_dict(5))
    combos = [("mu", "mi"), ("md", "mi"), ("mn", "mi"), ("mu", "md", "mi"), ("ie", "ma"), ("ma", "ie"), ("ie", "e"), ("e", "ie"), ("ie", "mb", "ma"), ("iei", "ma"), ("ei", "ma"), ("ei", "iei"), ("ie", "lm"), ("e", "lm"), ("ie", "ls"), ("ma", "lm"), ("lm", "i"), ("dt", "i"), ("i", "b"), ("e", "i"),
              ("u", "lm"), ("ma", "mb"), ("mb", "ma"), ("ie", "dt"), ("ie", "s"), ("e", "ma", "i"), ("ie", "e", "ma")]
    out = []
    for version in ("3.0.3", "3.1.0"):
        for kw in ("oneOf", "anyOf"):
            d = base_doc(version, f"Union models {kw}")
            S = {"Ua": {"type": "object", "required": ["a"], "properties": {"a": {"type": "string"}, "n": {"type": "integer"}}, "additionalProperties": False},
                 "Ub": {"type": "object", "required": ["b"], "properties": {"b": {"type": "integer"}, "when": {"type": "string", "format": "date"}}, "additionalProperties": False},
                 "Ue": {"type": "string", "enum": ["x", "y"]}, "Uie": {"type": "integer", "enum": [10, 20, 0]},
                 "Uu": {"type": "object", "required": ["id"], "properties": {"id": {"type": "string", "format": "uuid"}}}, "Ui": {"type": "object", "required": ["id"], "properties": {"id": {"type": "integer"}}},
                 "Ud": {"type": "object", "required": ["id"], "properties": {"id": {"type": "string", "format": "date-time"}}}, "Un": {"type": "object", "required": ["id"], "properties": {"id": R("Ua")}}}
            for ci, combo in enumerate(combos):
                props, req = {}, []
                for nul in (False, True):
                    for required in (False, True):
                        members = [clone(kinds[k]) for k in combo]
                        sch = {kw: members + ([{"type": "null"}] if nul and version.startswith("3.1") else [])}
                        if nul and not version.startswith("3.1"):
                            sch["nullable"] = True
                        pn = f"p{'n' if nul else ''}{'r' if required else 'o'}"
                        props[pn] = sch
                        if required:
                            req.append(pn)
                S["H" + "".join(k.capitalize() for k in combo)] = {"type": "object", "properties": props, "required": req}
            d["components"]["schemas"] = S
            out.append((f"union_models:{kw}:{version}", d))
    return out


def union_io_docs() -> list[tuple[str, dict]]:
    """Operations whose JSON response / JSON request body / query parameter is a union: every ordered pair (and a few
    triples) of member kinds that first-match decoding can tell apart, under oneOf and anyOf, with and without null.
    The `ops` planner walks the calls of one operation through the members in turn (response_plan branch=...)."""
    R = lambda n: {"$ref": f"#/components/schemas/{n}"}  # noqa: E731
    out = []
    kinds = {"ma": R("Ua"), "mb": R("Ub"), "lm": {"type": "array", "items": R("Ua")}, "ls": {"type": "array", "items": {"type": "string"}}, "dt": {"type": "string", "format": "date-time"}, "i": {"type": "integer"},
             "b": {"type": "boolean"}, "e": R("Ue"), "u": {"type": "string", "format": "uuid"}, "ie": R("Uie"), "mu": R("Uu"), "mi": R("Ui"), "md": R("Ud"), "mn": R("Un")}
    # pairs first-match decoding separates by runtime type or by a required key (others are the listed first-match findings)
    combos = [("ma", "lm"), ("lm", "ma"), ("ma", "i"), ("i", "ma"), ("ma", "mb"), ("mb", "ma"), ("lm", "ls"), ("ls", "i"), ("dt", "i"), ("i", "b"), ("e", "i"), ("ie", "ma"), ("u", "lm"), ("ma", "lm", "i"), ("lm", "e", "mb"), ("i", "ls", "ma"), ("dt", "ma", "b"),
              ("mu", "mi"), ("md", "mi"), ("mn", "mi"), ("mu", "md", "mi")]
    for version in ("3.0.3", "3.1.0"):
        for kw in ("oneOf", "anyOf"):
            d = base_doc(version, f"Union IO {kw}")
            d["components"]["schemas"] = {"Ua": {"type": "object", "required": ["a"], "properties": {"a": {"type": "string"}, "n": {"type": "integer"}}, "additionalProperties": False},
                                          "Ub": {"type": "object", "required": ["b"], "properties": {"b": {"type": "integer"}, "when": {"type": "string", "format": "date"}}, "additionalProperties": False},
                                          "Ue": {"type": "string", "enum": ["x", "y"]}, "Uie": {"type": "integer", "enum": [10, 20]},
                                          "Uu": {"type": "object", "required": ["id"], "properties": {"id": {"type": "string", "format": "uuid"}}}, "Ui": {"type": "object", "required": ["id"], "properties": {"id": {"type": "integer"}}},
                                          "Ud": {"type": "object", "required": ["id"], "properties": {"id": {"type": "string", "format": "date-time"}}}, "Un": {"type": "object", "required": ["id"], "properties": {"id": R("Ua")}}}
            d["paths"] = {}
            for ci, combo in enumerate(combos):
                for nul in (False, True):
                    members = [clone(kinds[k]) for k in combo]
                    sch = {kw: members + ([{"type": "null"}] if nul and version.startswith("3.1") else [])}
                    if nul and not version.startswith("3.1"):
                        sch["nullable"] = True
                    name = "_".join(combo) + ("_null" if nul else "")
                    op = {"operationId": f"u_{name}", "responses": {"200": {"description": "ok", "content": {"application/json": {"schema": sch}}}, "404": {"description": "no", "content": {"application/json": {"schema": R("Ub")}}}}}
                    op["requestBody"] = {"required": True, "content": {"application/json": {"schema": clone(sch)}}}
                    if all(k in ("i", "b", "e", "dt", "u", "ie") for k in combo):
                        op["parameters"] = [{"name": "q", "in": "query", "schema": clone(sch)}]
                    d["paths"][f"/u/{ci}{'n' if nul else ''}"] = {"post": op}
            out.append((f"union_io:{kw}:{version}", d))
    return out


OVERRIDES = {"text/plain; charset=utf-8": "application/json", "application/vnd.acme.widget; version=2": "application/json", "application/zip": "application/octet-stream",
             "application/x-ndjson": "text/plain", "application/vnd.acme.upload": "multipart/form-data", "Application/X-Mixed-Case": "application/json"}


def override_docs() -> list[tuple[str, dict, dict]]:
    """(label, document, content_type_overrides): responses and request bodies documented under media types that only the
    option makes supported - keys with parameters, vendor types, a key in mixed case; next to ordinary ones."""
    R = lambda n: {"$ref": f"#/components/schemas/{n}"}  # noqa: E731
    out = []
    for version in ("3.0.3", "3.1.0"):
        d = base_doc(version, "Overrides")
        d["components"]["schemas"] = {"Widget": {"type": "object", "properties": {"id": {"type": "integer"}, "name": {"type": "string"}}, "required": ["id"]}, "Kind": {"type": "string", "enum": ["a", "b"]}}
        J = lambda mt, sch: {mt: {"schema": sch}}  # noqa: E731
        d["paths"] = {
            "/w1": {"get": {"operationId": "w_param_key", "responses": {"200": {"description": "ok", "content": J("text/plain; charset=utf-8", R("Widget"))}, "404": {"description": "nf", "content": J("text/plain", {"type": "string"})}}}},
            "/w2": {"get": {"operationId": "w_vendor_key", "responses": {"200": {"description": "ok", "content": J("application/vnd.acme.widget; version=2", {"type": "array", "items": R("Widget")})},
                                                                           "201": {"description": "ok", "content": J("application/json", R("Kind"))}}}},
            "/w3": {"get": {"operationId": "w_zip", "responses": {"200": {"description": "ok", "content": J("application/zip", {"type": "string", "format": "binary"})}, "202": {"description": "ok", "content": J("application/x-ndjson", {"type": "string"})}}}},
            "/w4": {"post": {"operationId": "w_bodies", "requestBody": {"content": {**J("application/vnd.acme.widget; version=2", R("Widget")), **J("application/vnd.acme.upload", {"type": "object", "properties": {"a": {"type": "string"}}, "additionalProperties": False})}},
                             "responses": {"200": {"description": "ok", "content": J("Application/X-Mixed-Case", R("Widget"))}}}},
        }
        out.append((f"overrides:{version}", d, dict(OVERRIDES)))
    return out


def typing_stress_docs() -> list[tuple[str, dict]]:
    """Documents aimed at the type checker only (no instances are derived from them): unions that combine anyOf and
    oneOf, responses whose media types disagree, bodies / parameters of every union flavour."""
    R = lambda n: {"$ref": f"#/components/schemas/{n}"}  # noqa: E731
    out = []
    for version in ("3.0.3", "3.1.0"):
        d = base_doc(version, "Typing stress")
        d["components"]["schemas"] = {
            "N": _N(), "N2": _N2(), "E": {"type": "string", "enum": ["a", "b"]},
            "AnyAndOne": {"type": "object", "properties": {
                "mixed": {"anyOf": [{"type": "string", "format": "date"}, R("N")], "oneOf": [{"type": "string", "format": "uuid"}, {"type": "array", "items": R("N")}]},
                "mixed2": {"anyOf": [{"type": "string", "format": "date-time"}, {"type": "array", "items": {"type": "string", "format": "date"}}], "oneOf": [R("N2"), {"type": "integer"}]},
                "mixed3": {"anyOf": [R("E"), {"type": "boolean"}], "oneOf": [{"type": "string", "format": "date"}], "nullable": True}}, "required": ["mixed"]},
            "Holder": {"type": "object", "properties": {"u": {"oneOf": [R("N"), R("N2"), {"type": "array", "items": {"anyOf": [R("N"), {"type": "string", "format": "uuid"}]}}]},
                                                        "nl": {"anyOf": [{"type": "array", "items": ({"type": ["integer", "null"]} if version.startswith("3.1") else {"type": "integer", "nullable": True})}, {"type": "string"}]},
                                                        "nl2": {"oneOf": [{"type": "array", "items": ({"oneOf": [R("N"), {"type": "null"}]} if version.startswith("3.1") else {"allOf": [R("N")], "nullable": True})}, {"type": "string", "format": "date"}]}}},
        }
        ok = {"description": "ok"}
        d["paths"] = {
            "/r1": {"get": {"operationId": "r_one", "responses": {"200": dict(ok, content={"text/plain": {}, "application/json": {"schema": R("N")}}), "201": dict(ok, content={"application/octet-stream": {}, "application/json": {"schema": {"type": "integer"}}}),
                                                                  "202": dict(ok, content={"application/json": {"schema": R("N2")}, "text/plain": {"schema": {"type": "string"}}})}}},
            "/r2": {"post": {"operationId": "r_two", "requestBody": {"content": {"application/json": {"schema": R("AnyAndOne")}}}, "parameters": [{"name": "q", "in": "query", "schema": {"anyOf": [{"type": "string", "format": "date"}], "oneOf": [{"type": "integer"}, R("E")]}}],
                             "responses": {"200": dict(ok, content={"application/json": {"schema": {"anyOf": [R("N")], "oneOf": [{"type": "array", "items": R("N2")}]}}})}}},
        }
        out.append((f"typing:{version}", d))
        # defaults in every accepted spelling: the emitted literal must have the annotated type (an integer written 10.0 / "4.0" / 2e1 is an int)
        d2 = base_doc(version, "Typing defaults")
        spell = {"i_plain": ("integer", 3), "i_float": ("integer", 10.0), "i_exp": ("integer", 2e1), "i_str": ("integer", "4"), "i_strfloat": ("integer", "4.0"), "i_neg": ("integer", -7.0),
                 "n_int": ("number", 3), "n_float": ("number", 2.5), "n_str": ("number", "1.5"), "n_strint": ("number", "6"), "b_true": ("boolean", True), "b_str": ("boolean", "true"),
                 "s_plain": ("string", "x"), "s_num": ("string", 5), "s_bool": ("string", True)}
        d2["components"]["schemas"] = {"Defaults": {"type": "object", "properties": {k: {"type": t, "default": v} for k, (t, v) in spell.items()}},
                                       "DefaultsNullable": {"type": "object", "properties": {k: ({"type": [t, "null"], "default": v} if version.startswith("3.1") else {"type": t, "nullable": True, "default": v}) for k, (t, v) in spell.items()}},
                                       "DefaultsFormats": {"type": "object", "properties": {"day": {"type": "string", "format": "date", "default": "2020-01-02"}, "dt": {"type": "string", "format": "date-time", "default": "2020-01-02T03:04:05+00:00"},
                                                                                            "u": {"type": "string", "format": "uuid", "default": "12345678-1234-5678-1234-567812345678"}, "e": {"type": "string", "enum": ["a", "b"], "default": "b"},
                                                                                            "ei": {"type": "integer", "enum": [1, 2], "default": 2}, "c": {"const": "k", "default": "k"}}}}
        d2["paths"] = {"/defaults": {"get": {"operationId": "defaults_get", "parameters": [{"name": k, "in": loc, "schema": {"type": t, "default": v}} for loc in ("query", "header") for k, (t, v) in spell.items() if not (loc == "header" and k.startswith("s_"))] ,
                                             "responses": {"200": dict(ok, content={"application/json": {"schema": {"$ref": "#/components/schemas/Defaults"}}})}}}}
        out.append((f"typing_defaults:{version}", d2))
    return out
