"""Check-side helpers: build jobs, run them on the pool, iterate results, classify common failure mechanisms."""
from __future__ import annotations

import ast
import os
import re
import sys
import time
import tomllib

from .common import Evidence, Verdict, cleanup, scratch, seed, tier
from .pool import Pool


class Run:
    def __init__(self, prop: str, level: str = "exploration"):
        self.prop = prop
        self.ev = Evidence(prop, level)
        self.vd = Verdict(prop, self.ev)
        self.pool = Pool("vf.genworker")
        self.n = 0
        self.t0 = time.time()
        self.cov: set = set()
        self.cov_jobs = 0
        self.contracts = {"engine": None, "evaluations": {}, "failures": []}
        self.gencov = {"jobs": 0, "funcs": {}, "hit": {}, "miss": {}}

    def job(self, doc=None, **kw) -> dict:
        self.n += 1
        j = {"id": self.n, "work": str(scratch() / f"w{self.n % 64}"), "name": f"p{self.n}"}
        if doc is not None:
            j["doc"] = doc
        j.update(kw)
        return j

    def map(self, jobs, timeout=180.0, lane="default", env=None, progress=None):
        # M-COV on a sample of the jobs (sys.monitoring line events of repository code incl. templates)
        for idx, j in enumerate(jobs):
            if idx % (1 if os.environ.get("VERIF_COV_ALL") else 7) == 0 and ("doc" in j or "raw_b64" in j) and not j.get("op"):
                j["cov"] = True
                j["want"] = list(j.get("want") or []) + ["cov"]
            # M-GENCOV on a sample of the jobs that drive generated code (sys.monitoring line events inside the sandbox)
            if idx % (1 if os.environ.get("VERIF_COV_ALL") else 5) == 0 and (j.get("plan") or j.get("sandbox")) and not j.get("op"):
                j["gencov"] = True
        rs = self.pool.map(jobs, timeout=timeout, lane=lane, env=env, progress=progress or self.prop)
        for j, r in zip(jobs, rs):
            g = (r.get("sandbox") or {}).pop("gencov", None) if isinstance(r.get("sandbox"), dict) else None
            if g and "funcs" in g:
                self.gencov["jobs"] += 1
                for k, (h, t, e) in g["funcs"].items():
                    c = self.gencov["funcs"].setdefault(k, [0, 0, 0])
                    c[0] += h
                    c[1] += t
                    c[2] += e
                for src, dst in ((g["hit_shapes"], self.gencov["hit"]), (g["miss_shapes"], self.gencov["miss"])):
                    for k, v in src.items():
                        dst[k] = dst.get(k, 0) + v
            c = r.pop("contracts", None)
            if c:
                self.contracts["engine"] = c["engine"]
                for k, v in c["evaluations"].items():
                    self.contracts["evaluations"][k] = self.contracts["evaluations"].get(k, 0) + v
                self.contracts["failures"] = (self.contracts["failures"] + c["failures"])[:12]
            if j.get("cov") and isinstance(r.get("cov"), list):
                self.cov_jobs += 1
                self.cov.update((f, ln) for f, ln in r.pop("cov"))
            if r.get("_error"):
                self.ev.count("harness:" + r["_error"])
            if r.get("sandbox", {}).get("_error"):
                self.ev.count("harness:" + r["sandbox"]["_error"])
        return rs

    def anchor_coverage(self) -> dict:
        """Lines of each anchored file (properties.jsonl) executed by the sampled jobs of this run."""
        import json as _json
        from .common import REPO, VERIF
        anchors = []
        try:
            for line in open(VERIF / "properties.jsonl"):
                p = _json.loads(line)
                if p["id"] == self.prop:
                    anchors = p["anchors"]["files"]
        except OSError:
            return {}
        hit_by_file: dict = {}
        for f, ln in self.cov:
            hit_by_file.setdefault("openapi_python_client/" + f, set()).add(ln)
        out = {}
        for a in anchors:
            files = [f for f in hit_by_file if f == a or (a.endswith("/") and f.startswith(a))]
            hits = sum(len(hit_by_file[f]) for f in files)
            stm = None
            fp = REPO / a
            if a.endswith(".py") and fp.exists():
                try:
                    stm = len({n.lineno for n in ast.walk(ast.parse(fp.read_text())) if isinstance(n, ast.stmt)})
                except SyntaxError:
                    stm = None
            out[a] = {"lines_hit": hits, "statement_lines": stm}
        return out

    def finish(self) -> int:
        self.pool.close()
        if os.environ.get("VERIF_COV_DUMP"):
            # analysis aid (tools/coverage_gaps.py): the raw (file, line) pairs the sampled jobs executed
            import json as _json
            os.makedirs(os.environ["VERIF_COV_DUMP"], exist_ok=True)
            with open(os.path.join(os.environ["VERIF_COV_DUMP"], f"{self.prop}.json"), "w") as fh:
                _json.dump(sorted(self.cov), fh)
        if self.contracts["engine"]:
            self.ev.extra["contract_evaluations"] = {"engine": self.contracts["engine"], "evaluations_since_last_sample": self.contracts["evaluations"],
                                                     "first_failures(localisation only, not a verdict)": self.contracts["failures"]}
        if self.gencov["jobs"]:
            gc = self.gencov
            entered = {k for k, v in gc["funcs"].items() if v[2]}
            never = sorted(((v, k) for k, v in gc["miss"].items() if k not in gc["hit"] and k.split(": ")[0] in entered), reverse=True)
            self.ev.extra["generated_code_coverage"] = {
                "what": "M-GENCOV: statement lines of generated function bodies executed by the sandbox actions of the sampled jobs (sys.monitoring LINE events); shapes are identifier-free spellings of generated lines",
                "sampled_jobs": gc["jobs"],
                "functions": {k: {"lines_executed": v[0], "lines_present": v[1], "functions_entered": v[2]} for k, v in sorted(gc["funcs"].items())},
                "distinct_line_shapes_executed": len(gc["hit"]),
                "distinct_line_shapes_never_executed(in function kinds this run entered)": len(never),
                "never_executed_shapes(top)": [f"{v}x {k}" for v, k in never[:25]]}
            if os.environ.get("VERIF_COV_DUMP"):
                import json as _json
                os.makedirs(os.environ["VERIF_COV_DUMP"], exist_ok=True)
                with open(os.path.join(os.environ["VERIF_COV_DUMP"], f"{self.prop}.gencov.json"), "w") as fh:
                    _json.dump(gc, fh)
        if self.cov_jobs:
            ac = self.anchor_coverage()
            self.ev.extra["anchor_coverage"] = {"sampled_jobs": self.cov_jobs, "files": ac, "never_executed": sorted(a for a, v in ac.items() if v["lines_hit"] == 0)}
            self.vd.inconclusive_if(bool(ac) and all(v["lines_hit"] == 0 for v in ac.values()), "none of the property's anchored files was executed by the sampled jobs")
        st = self.pool.stats
        self.ev.extra["pool"] = st
        if st["jobs"]:
            self.vd.inconclusive_if(st["timeouts"] + st["deaths"] > max(2, 0.05 * st["jobs"]), f"{st['timeouts']} watchdog timeouts / {st['deaths']} worker deaths in {st['jobs']} jobs")
        code = self.vd.finish()
        cleanup()
        return code


def actions_results(r: dict):
    """Pairs (action, result) of a job result, aligned; empty if the sandbox did not run."""
    sb = r.get("sandbox") or {}
    acts = r.get("actions") or []
    res = sb.get("results") or []
    return list(zip(acts, res))


def with_followups(pairs):
    """(action, result) pairs in which every follow-up call made on a used client appears as a call unit of its own."""
    for a, res in pairs:
        yield a, res
        if a.get("a") == "call" and not (res or {}).get("action_exc"):
            for fi, fu in enumerate(a.get("followups") or []):
                sub = {}
                for variant, vr in (res or {}).items():
                    if isinstance(vr, dict) and isinstance(vr.get("followups"), list) and fi < len(vr["followups"]):
                        sub[variant] = vr["followups"][fi]
                yield dict(fu, a="call", variants=a.get("variants"), client=a.get("client")), sub


# ---------------------------------------------------------------------------------------- tree observers (O-AST / O-TOML)
def tree_static_problems(tree: dict) -> list:
    """compile() every .py, tomllib every pyproject.toml.  Returns [(effect, relpath, msg, text)]."""
    out = []
    for rel, text in tree.items():
        if not isinstance(text, str):
            continue
        if rel.endswith(".py"):
            try:
                compile(text, rel, "exec", dont_inherit=True)
            except SyntaxError as ex:
                out.append(("syntax_error", rel, f"{ex.msg} (line {ex.lineno})", (ex.text or "").strip()[:200]))
            except ValueError as ex:
                out.append(("syntax_error", rel, f"ValueError: {ex}", ""))
        elif rel.endswith("pyproject.toml"):
            try:
                tomllib.loads(text)
            except tomllib.TOMLDecodeError as ex:
                out.append(("toml_error", rel, str(ex)[:200], ""))
    return out


def artefact_kind(rel: str) -> str:
    rel = rel.replace("\\", "/")
    if "/models/" in "/" + rel:
        return "model" if not rel.endswith("__init__.py") else "models_init"
    if "/api/" in "/" + rel:
        return "endpoint" if not rel.endswith("__init__.py") else "api_init"
    if rel.endswith(("pyproject.toml", "setup.py", "README.md")):
        return "metadata"
    return "package"


_SYNTAX_MECHS = [
    # (label, regex on offending source text / message).  Labels are a finite vocabulary of *mechanisms*.
    ("optional_const_missing_space", re.compile(r"!= \S+and not isinstance\(")),
    ("raw_name_fallback_not_identifier", re.compile(r"^(field_)?[\w]*[^\w\s:=,.()\[\]'\"]+[\w]*\s*[:=,]")),
    ("duplicate_argument", re.compile(r"duplicate argument")),
    ("default_before_non_default", re.compile(r"parameter without a default follows parameter with a default|non-default argument follows default argument")),
    ("unterminated_string", re.compile(r"unterminated (triple-quoted )?string|EOL while scanning")),
]


def classify_syntax(msg: str, text: str) -> str:
    for label, rx in _SYNTAX_MECHS:
        if rx.search(text or "") or rx.search(msg or ""):
            return label
    return "other"


def main_wrapper(fn):
    """Entry-point wrapper: a crash of the harness itself is reported as inconclusive (exit 2), never as held."""
    try:
        code = fn()
    except SystemExit:
        raise
    except BaseException as ex:  # noqa: BLE001
        import traceback
        traceback.print_exc()
        print(f"INCONCLUSIVE reason=harness-crash {type(ex).__name__}: {ex}")
        cleanup()
        code = 2
    sys.stdout.flush()
    os._exit(code)


# names the generated modules import for their own use: a document class of the same name replaces them in the importing module
SHADOW_NAMES = {"Any", "Union", "Optional", "cast", "Literal", "TYPE_CHECKING", "TypeVar", "BinaryIO", "TextIO", "Generator", "Mapping", "MutableMapping", "HTTPStatus", "Client", "AuthenticatedClient", "Response",
                "UNSET", "Unset", "File", "FileTypes", "BytesIO", "UUID", "Enum", "IntEnum", "StrEnum", "T", "isoparse", "datetime", "json", "httpx", "errors", "ssl"}


def class_shadows_template_import(man: dict) -> bool:
    return bool((set((man or {}).get("models") or {}) | set((man or {}).get("enums") or {})) & SHADOW_NAMES)


def union_members_mentioning(src: str, cls: str) -> bool:
    """Does `src` annotate something as a real union (>= 2 members besides Unset) that includes class `cls`?"""
    i = 0
    while True:
        i = src.find("Union[", i)
        if i < 0:
            return False
        depth, j = 0, i + 5
        while j < len(src):
            if src[j] == "[":
                depth += 1
            elif src[j] == "]":
                depth -= 1
                if depth == 0:
                    break
            j += 1
        inner = src[i + 6:j]
        # split top-level members
        parts, d, cur = [], 0, ""
        for ch in inner:
            if ch == "[":
                d += 1
            elif ch == "]":
                d -= 1
            if ch == "," and d == 0:
                parts.append(cur.strip())
                cur = ""
            else:
                cur += ch
        if cur.strip():
            parts.append(cur.strip())
        real = [p for p in parts if p not in ("Unset",)]
        if len(real) >= 2 and any(re.search(r"\b" + re.escape(cls) + r"\b", p) for p in real):
            return True
        i = i + 6


def dangling_mechanism(unres: dict, tree: dict, removed: set, pkg_prefix_len: int = 1) -> str:
    """Attribution of an unresolved import in a generated model: ':removed_by_cascade' iff some diagnostic lists a
    cascade removal *and* the module that remains refers to the missing class through a union member (the path the
    cascade does not follow); '' otherwise."""
    if not removed:
        return ""
    mod = unres["module"].split(".", pkg_prefix_len)[-1].replace(".", "/") + ".py"
    src = tree.get(mod)
    if not isinstance(src, str):
        # metadata flavours put the package one level down
        cands = [k for k in tree if k.endswith("/" + mod)]
        src = tree.get(cands[0]) if cands else None
    if not isinstance(src, str):
        return ""
    for cls in unres.get("names") or []:
        if union_members_mentioning(src, cls):
            return ":removed_by_cascade"
    return ""
