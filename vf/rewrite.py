"""Notation rewrites of OpenAPI documents (C17, C20): the same API said differently."""
from __future__ import annotations

import copy

from . import docs

ANNOT = ("description", "example", "title", "default", "deprecated")


def map_schemas(doc: dict, fn, top_level: bool = False) -> dict:
    """Deep copy of `doc` with fn(schema, position) applied bottom-up to every schema position.
    position in: component | property | items | additional | member:<kw> | allof_member | param | body | response"""
    d = copy.deepcopy(doc)

    def rec(s, pos):
        if not isinstance(s, dict):
            return s
        if "$ref" not in s:
            if isinstance(s.get("properties"), dict):
                s["properties"] = {k: rec(v, "property") for k, v in s["properties"].items()}
            if isinstance(s.get("items"), dict):
                s["items"] = rec(s["items"], "items")
            if isinstance(s.get("additionalProperties"), dict):
                s["additionalProperties"] = rec(s["additionalProperties"], "additional")
            n_sub = sum(len(s.get(kw) or []) for kw in ("oneOf", "anyOf", "allOf"))
            for kw in ("oneOf", "anyOf"):
                if isinstance(s.get(kw), list):
                    s[kw] = [rec(m, "sole_member" if n_sub == 1 else "member:" + kw) for m in s[kw]]
            if isinstance(s.get("allOf"), list):
                objectish = docs.is_objectish(s, comps)
                s["allOf"] = [rec(m, "sole_member" if n_sub == 1 else ("allof_member" if objectish and (len(s["allOf"]) > 1 or "properties" in s) else "member:allOf")) for m in s["allOf"]]
        return fn(s, pos)

    comps = ((d.get("components") or {}).get("schemas") or {})
    for k in list(comps):
        comps[k] = rec(comps[k], "component") if top_level else _children_only(comps[k], rec)
    for section, pos in (("parameters", "param"),):
        for k, p in (((d.get("components") or {}).get(section)) or {}).items():
            if isinstance(p, dict) and isinstance(p.get("schema"), dict):
                p["schema"] = rec(p["schema"], pos)
    for k, b in (((d.get("components") or {}).get("requestBodies")) or {}).items():
        for mt, m in ((b or {}).get("content") or {}).items():
            if isinstance(m, dict) and isinstance(m.get("schema"), dict):
                m["schema"] = rec(m["schema"], "body")
    for k, r in (((d.get("components") or {}).get("responses")) or {}).items():
        for mt, m in ((r or {}).get("content") or {}).items():
            if isinstance(m, dict) and isinstance(m.get("schema"), dict):
                m["schema"] = rec(m["schema"], "response")
    for path, item in (d.get("paths") or {}).items():
        if not isinstance(item, dict):
            continue
        holders = [item] + [item[m] for m in docs.METHODS if isinstance(item.get(m), dict)]
        for h in holders:
            for p in h.get("parameters") or []:
                if isinstance(p, dict) and isinstance(p.get("schema"), dict):
                    p["schema"] = rec(p["schema"], "param")
            b = h.get("requestBody")
            if isinstance(b, dict):
                for mt, m in (b.get("content") or {}).items():
                    if isinstance(m, dict) and isinstance(m.get("schema"), dict):
                        m["schema"] = rec(m["schema"], "body")
            for st, r in (h.get("responses") or {}).items():
                if isinstance(r, dict):
                    for mt, m in (r.get("content") or {}).items():
                        if isinstance(m, dict) and isinstance(m.get("schema"), dict):
                            m["schema"] = rec(m["schema"], "response")
    return d


def _children_only(s, rec):
    """Apply rec to the children of a top-level component but not to the component schema itself."""
    if not isinstance(s, dict) or "$ref" in s:
        return s
    keep = lambda x, pos: x  # noqa: E731
    if isinstance(s.get("properties"), dict):
        s["properties"] = {k: rec(v, "property") for k, v in s["properties"].items()}
    if isinstance(s.get("items"), dict):
        s["items"] = rec(s["items"], "items")
    if isinstance(s.get("additionalProperties"), dict):
        s["additionalProperties"] = rec(s["additionalProperties"], "additional")
    for kw in ("oneOf", "anyOf"):
        if isinstance(s.get(kw), list):
            s[kw] = [rec(m, "member:" + kw) for m in s[kw]]
    if isinstance(s.get("allOf"), list):
        s["allOf"] = [(_children_only(m, rec) if "$ref" not in m else m) for m in s["allOf"]]
    return s


# ------------------------------------------------------------------------------------------------ the rewrites
def rw_nullable(rng, p: float, style: str):
    """3.0 `nullable: true` on a typed scalar/array/object -> 3.1 type list ('typelist') or null union member ('member')."""
    count = [0]

    def fn(s, pos):
        if not s.get("nullable") or "enum" in s or "$ref" in s or pos in ("allof_member",):
            return s
        if rng.random() > p:
            return s
        t = s.get("type")
        if isinstance(t, str) and not (s.get("oneOf") or s.get("anyOf") or s.get("allOf")):
            if t == "object" and style == "typelist":
                return s  # object + null type list names inline classes differently (type_0 suffix): not claimed equivalent
            count[0] += 1
            out = {k: v for k, v in s.items() if k != "nullable"}
            if style == "typelist":
                out["type"] = [t, "null"]
                return out
            inner = {k: v for k, v in out.items() if k not in ANNOT}
            outer = {k: v for k, v in out.items() if k in ANNOT}
            if t == "object":
                return s
            outer["oneOf"] = [inner, {"type": "null"}]
            return outer
        return s
    fn.count = count
    return fn


def rw_nullable_typed_composition(rng, p: float):
    """3.0 `nullable: true` beside an explicit single `type` *and* a composition keyword -> the same schema with the 3.1
    type list `[type, "null"]` (the schema layer turns the former into the latter before anything else looks at it)."""
    count = [0]

    def fn(s, pos):
        if s.get("nullable") and isinstance(s.get("type"), str) and (s.get("oneOf") or s.get("anyOf") or s.get("allOf")) and "enum" not in s and "$ref" not in s and rng.random() <= p:
            count[0] += 1
            out = {k: v for k, v in s.items() if k != "nullable"}
            out["type"] = [s["type"], "null"]
            return out
        return s
    fn.count = count
    return fn


def rw_nullable_ref(rng, p: float):
    """`nullable: true, allOf: [ref]` -> `oneOf: [{type: null}, ref]` (null first, as the 3.0 form is normalised)."""
    count = [0]

    def fn(s, pos):
        if s.get("nullable") and isinstance(s.get("allOf"), list) and len(s["allOf"]) == 1 and "$ref" in s["allOf"][0] and "properties" not in s and "type" not in s and rng.random() <= p:
            count[0] += 1
            out = {k: v for k, v in s.items() if k not in ("nullable", "allOf")}
            out["oneOf"] = [{"type": "null"}, s["allOf"][0]]
            return out
        return s
    fn.count = count
    return fn


def rw_enum_null(rng, p: float, form: str = "plain"):
    """enum containing null -> explicit union oneOf [{type: null}, that enum without null].
    form selects which spelling of 'an enum containing null' is rewritten: plain (no nullable flag, single type),
    nullable30 (`nullable: true` beside it), typelist31 (`type: [t, null]` beside it)."""
    count = [0]

    def fn(s, pos):
        if not (isinstance(s.get("enum"), list) and None in s["enum"] and len(s["enum"]) > 1 and "$ref" not in s):
            return s
        f = "nullable30" if s.get("nullable") else ("typelist31" if isinstance(s.get("type"), list) else "plain")
        if f != form or rng.random() > p:
            return s
        count[0] += 1
        inner = {k: v for k, v in s.items() if k not in ("nullable",) and k not in ANNOT}
        inner["enum"] = [v for v in s["enum"] if v is not None]
        if isinstance(inner.get("type"), list):
            ts = [t for t in inner["type"] if t != "null"]
            inner["type"] = ts[0] if len(ts) == 1 else ts
        outer = {k: v for k, v in s.items() if k in ANNOT}
        outer["oneOf"] = [{"type": "null"}, inner]
        return outer
    fn.count = count
    return fn


def rw_wrap_ref(rng, p: float, kw: str | None = None):
    """bare $ref -> single-element allOf / oneOf / anyOf wrapper."""
    count = [0]

    def fn(s, pos):
        if "$ref" in s and len(s) == 1 and pos not in ("allof_member", "component", "sole_member") and rng.random() <= p:
            count[0] += 1
            return {kw or rng.choice(["allOf", "oneOf", "anyOf"]): [s]}
        return s
    fn.count = count
    return fn


def rw_unwrap_ref(rng, p: float):
    """single-element wrapper (only the wrapper keyword) -> bare $ref."""
    count = [0]

    def fn(s, pos):
        for kw in ("allOf", "oneOf", "anyOf"):
            if list(s) == [kw] and isinstance(s[kw], list) and len(s[kw]) == 1 and isinstance(s[kw][0], dict) and list(s[kw][0]) == ["$ref"] and pos != "component" and rng.random() <= p:
                count[0] += 1
                return s[kw][0]
        return s
    fn.count = count
    return fn


def rw_nullable_allof_multi(rng, p: float):
    """`nullable: true` beside a composing allOf (several members / an inline member), annotations beside it ->
    the 3.1 spelling `oneOf: [{type: null}, {allOf: [...]}]` with the annotations kept on the union."""
    count = [0]

    def fn(s, pos):
        a = s.get("allOf")
        if s.get("nullable") and isinstance(a, list) and (len(a) > 1 or (a and "$ref" not in a[0])) and "properties" not in s and "type" not in s and pos != "component" and rng.random() <= p:
            count[0] += 1
            out = {k: v for k, v in s.items() if k not in ("nullable", "allOf")}
            out["oneOf"] = [{"type": "null"}, {"allOf": a}]
            return out
        return s
    fn.count = count
    return fn


def rw_typelist_member(rng, p: float):
    """3.1 type list of one type and "null" -> the explicit union of the same members in the same order
    (`type: ["null", T]` -> `oneOf: [{type: null}, {type: T, ...}]`), annotations kept on the union."""
    count = [0]

    def fn(s, pos):
        t = s.get("type")
        if not (isinstance(t, list) and len(t) == 2 and "null" in t and t[0] != t[1]) or "enum" in s or "const" in s or "$ref" in s or s.get("oneOf") or s.get("anyOf") or s.get("allOf") or pos in ("allof_member", "component") or "title" in s:
            return s  # (a title names the inline class: which level it belongs to after the rewrite is not defined)
        if rng.random() > p:
            return s
        other = next(x for x in t if x != "null")
        if other == "object" and any(k in s for k in ANNOT):
            return s  # annotations of an inline object are the generated class's own: which level they belong to after the rewrite is not defined
        count[0] += 1
        inner = {k: v for k, v in s.items() if k not in ANNOT and k != "type"}
        inner["type"] = other
        outer = {k: v for k, v in s.items() if k in ANNOT}
        outer["oneOf"] = [{"type": "null"}, inner] if t[0] == "null" else [inner, {"type": "null"}]
        return outer
    fn.count = count
    return fn
