"""Name alphabets used by the workload generators (DESIGN.md 2.2)."""
from __future__ import annotations

import builtins
import keyword
import random
import unicodedata

WORDS = ["alpha", "beta", "gamma", "delta", "user", "id", "name", "value", "item", "count", "kind", "status", "data", "info",
         "order", "price", "owner", "label", "score", "title", "group", "state", "total", "color", "level"]

KEYWORDS = list(keyword.kwlist)
SOFT = list(keyword.softkwlist)
BUILTINS = [b for b in dir(builtins) if not b.startswith("_")]


def benign(rng: random.Random, style: str | None = None) -> str:
    n = rng.choice([1, 2, 2, 3])
    ws = [rng.choice(WORDS) for _ in range(n)]
    style = style or rng.choice(["snake", "camel", "pascal", "kebab"])
    if style == "snake":
        return "_".join(ws)
    if style == "kebab":
        return "-".join(ws)
    if style == "camel":
        return ws[0] + "".join(w.capitalize() for w in ws[1:])
    return "".join(w.capitalize() for w in ws)


def unique_benign(rng: random.Random, used: set, style: str | None = None) -> str:
    for _ in range(100):
        n = benign(rng, style)
        key = "".join(c for c in n.lower() if c.isalnum())
        if key not in used:
            used.add(key)
            return n
    n = f"{benign(rng, style)}{len(used)}"
    used.add("".join(c for c in n.lower() if c.isalnum()))
    return n


# identifier-hostile but quote-free (C01's alphabet): no ' " \ newline
HOSTILE_FIXED = [
    "with space", "dash-ed", "dot.ted", "1leading", "123", "class", "def", "import", "None", "True", "match", "case", "type",
    "list", "dict", "str", "int", "id", "self", "Self", "datetime", "FooBAR", "fooBar", "foo_bar", "FOO", "éclair", "naïve", "日本", "ß",
    "_private", "__dunder__", "trailing_", "a  b", "a--b", "a..b", "x²", "٣", "a/b", "a+b", "a&b", "a:b", "a@b", "#hash",
    "ｓｅｌｆ", "ｃｌｉｅｎｔ", "ｃｌａｓｓ", "ｉｄ", "ﬁeld", "ｔｙｐｅ", "Ｎｏｎｅ", "ｕｒｌ", "Ⅷ", "ℂount",
    "X-Discount-%", "100%", "a%b", "%s", "%(x)s", "a%20b", "{x}", "{0}", "a{b}c", "{{y}}", "$var", "${HOME}", "a!b", "a*b", "a^b", "a|b", "a~b", "a`b", "q?", "k=v", "a;b", "a,b", "<tag>", "(p)", "[i]", "a&amp;b",
    "UPPER_CASE", "mixedCase_with-all.kinds", "Über", "ναί", "x" * 60, "a1b2", "kebab-case-name", "print", "object", "property",
]


def hostile(rng: random.Random) -> str:
    r = rng.random()
    if r < 0.5:
        return rng.choice(HOSTILE_FIXED)
    if r < 0.65:
        return rng.choice(KEYWORDS + SOFT)
    if r < 0.8:
        b = rng.choice(BUILTINS)
        return rng.choice([b, b.upper(), b.capitalize(), b.lower()])
    # random composition
    parts = []
    for _ in range(rng.randint(1, 3)):
        parts.append(rng.choice(WORDS + ["1", "2x", "É", "ö"]))
    return rng.choice([" ", "-", ".", "_", "", "  ", "-_"]).join(parts)


def collide_key(n: str) -> str:
    return "".join(c for c in n.lower() if c.isalnum())


def colliding_set(rng: random.Random, k: int = 2) -> list[str]:
    """Names equal after snake-casing / case-folding / delimiter removal, pairwise distinct as strings."""
    a, b = rng.choice(WORDS), rng.choice(WORDS)
    variants = [f"{a}_{b}", f"{a}-{b}", f"{a}.{b}", f"{a} {b}", f"{a}{b.capitalize()}", f"{a.capitalize()}{b.capitalize()}", f"{a}__{b}",
                f"{a.upper()}_{b.upper()}", f"{a}_{b}_", f"_{a}_{b}", f"{a}{b}", f"{a.upper()}{b.upper()}"]
    rng.shuffle(variants)
    out = []
    for v in variants:
        if v not in out:
            out.append(v)
        if len(out) == k:
            break
    return out


def codepoint_samples(rng: random.Random, per_category: int = 3) -> list[str]:
    """Sampled code points per Unicode general category + all Latin-1 + the `\\w`-but-not-XID set (sampled)."""
    import re
    by_cat: dict[str, list[str]] = {}
    for cp in range(0x20, 0x3000):
        ch = chr(cp)
        if ch in "'\"\\\n\r":
            continue
        by_cat.setdefault(unicodedata.category(ch), []).append(ch)
    out = []
    for cat, chars in sorted(by_cat.items()):
        out += rng.sample(chars, min(per_category, len(chars)))
    w_not_xid = [chr(cp) for cp in range(0x80, 0x3000) if re.match(r"\w", chr(cp)) and not ("a" + chr(cp)).isidentifier()]
    out += rng.sample(w_not_xid, min(20, len(w_not_xid)))
    return out


PATH_PARAM_SAFE = ["id", "user-id", "OwnerId", "item_id", "class", "type", "x", "_y", "A1", "from", "kebab-name", "snake_name", "client", "url", "list", "Id2"]


def fullwidth(word: str) -> str:
    """Compatibility (fullwidth) spelling: NFKC-normalises to `word`, is an identifier, is not ASCII."""
    return "".join(chr(ord(c) + 0xFEE0) if "!" <= c <= "~" and c != "_" else c for c in word)
