"""In-worker planners: turn (document, manifest) into sandbox actions.

Python *spellings* (class / module / parameter names) come from the manifest recorded at the generator/template
boundary (M-STRUCT); *expected wire behaviour* comes from the document.  Each action carries an `x` field with what the
main-process oracle needs (the wire-level arguments, the instance, labels); the sandbox ignores it.
"""
from __future__ import annotations

import base64
import datetime as _dt
import json
import random
import re
import uuid as _uuid

from . import docs


def skeleton(path: str) -> str:
    return re.sub(r"\{[^}]*\}", "{}", path)


def comps_of(doc: dict) -> dict:
    return ((doc.get("components") or {}).get("schemas") or {})


# ---------------------------------------------------------------------------------------- JSON -> python descriptors
def _is_date(v):
    try:
        _dt.date.fromisoformat(v)
        return len(v) == 10
    except Exception:
        return False


def _is_datetime(v):
    try:
        _dt.datetime.fromisoformat(v)
        return "T" in v
    except Exception:
        return False


def _is_uuid(v):
    try:
        _uuid.UUID(v)
        return True
    except Exception:
        return False


_MAN = {"man": None}


_STRICT = {"on": True}


def _model_accepts(pi, v) -> bool:
    man = _MAN["man"]
    if not man or pi.get("cls") not in (man.get("models") or {}):
        return True
    props = man["models"][pi["cls"]]["props"]
    req = {p["name"] for p in props if p["required"]}
    if not req <= set(v):
        return False
    if not _STRICT["on"]:
        return True
    # the values under the declared keys are of the declared kinds (one level: enough to tell members that share a key apart)
    for p in props:
        if p["name"] in v and v[p["name"]] is not None and p["kind"] not in ("AnyProperty", "ModelProperty", "UnionProperty"):
            if pick_member([p], v[p["name"]]) is None:
                return False
        elif p["name"] in v and p["kind"] == "ModelProperty" and not isinstance(v[p["name"]], dict):
            return False
    return True


def pick_member(inners: list, v):
    def ok(pi):
        k = pi["kind"]
        if v is None:
            return k == "NoneProperty"
        if isinstance(v, bool):
            return k in ("BooleanProperty", "AnyProperty") or (k == "ConstProperty" and pi["const"]["raw"] is v)
        if isinstance(v, int):
            return k in ("IntProperty", "FloatProperty", "AnyProperty") or (k in ("EnumProperty", "LiteralEnumProperty") and pi["value_type"] == "int")
        if isinstance(v, float):
            return k in ("FloatProperty", "AnyProperty")
        if isinstance(v, str):
            if k == "DateProperty":
                return _is_date(v)
            if k == "DateTimeProperty":
                return _is_datetime(v)
            if k == "UuidProperty":
                return _is_uuid(v)
            if k in ("EnumProperty", "LiteralEnumProperty"):
                vals = pi["values"].values() if isinstance(pi["values"], dict) else pi["values"]
                return pi["value_type"] == "str" and v in vals
            if k == "ConstProperty":
                return pi["const"]["raw"] == v
            return k in ("StringProperty", "AnyProperty")
        if isinstance(v, list):
            if k == "ListProperty" and isinstance(pi.get("inner"), dict):
                inner = pi["inner"]
                return all((pick_member(inner.get("inners") or [], i) is not None) if inner["kind"] == "UnionProperty" else (pick_member([inner], i) is not None) for i in v)
            return k in ("ListProperty", "AnyProperty")
        if isinstance(v, dict):
            return (k == "ModelProperty" and _model_accepts(pi, v)) or k == "AnyProperty"
        return False
    # specific before generic
    for pi in inners:
        if pi["kind"] not in ("StringProperty", "AnyProperty") and ok(pi):
            return pi
    for pi in inners:
        if ok(pi):
            return pi
    if isinstance(v, dict) and _STRICT["on"]:
        # no model member passes the look at its property kinds: fall back to the required-keys rule (the instance is valid for one of them)
        _STRICT["on"] = False
        try:
            return pick_member(inners, v)
        finally:
            _STRICT["on"] = True
    return None


def to_desc(pi: dict, v):
    """Python-side argument descriptor for JSON value `v` of a parameter/body whose parsed form is `pi`."""
    k = pi["kind"]
    if v is None:
        return None
    if k == "DateProperty":
        return {"$t": "date", "v": v}
    if k == "DateTimeProperty":
        return {"$t": "datetime", "v": v}
    if k == "UuidProperty":
        return {"$t": "uuid", "v": v}
    if k == "EnumProperty":
        return {"$t": "enum", "cls": pi["cls"], "v": v}
    if k == "ModelProperty":
        return {"$t": "model", "cls": pi["cls"], "v": v}
    if k == "ListProperty":
        return {"$t": "list", "v": [to_desc(pi["inner"], i) for i in v]}
    if k == "UnionProperty":
        m = pick_member(pi["inners"], v)
        if m is None:
            return {"$t": "json", "v": v}
        return to_desc(m, v)
    if k == "FloatProperty" and isinstance(v, int) and not isinstance(v, bool):
        return float(v)  # documented bound: number arguments are passed as Python floats
    if isinstance(v, (dict, list)):
        return {"$t": "json", "v": v}
    return v


# ---------------------------------------------------------------------------------------- models
def plan_models(doc: dict, man: dict, args: dict) -> list:
    rng = random.Random(args.get("seed", 0))
    tok = docs.Tok(rng)
    comps = comps_of(doc)
    acts = []
    if args.get("import", True):
        acts.append({"a": "import_all"})
    per = int(args.get("per_model", 10))
    tok.edge = float(args.get("edge", 0.12))
    for name, schema in comps.items():
        ref = f"/components/schemas/{name}"
        ent = (man.get("refs") or {}).get(ref)
        if not ent or ent["kind"] != "ModelProperty" or not docs.is_objectish(schema, comps):
            continue
        cls = ent["cls"]
        if cls not in man["models"]:
            continue
        acts.append({"a": "model_info", "cls": cls, "x": {"ref": ref}})
        try:
            insts = docs.object_instances(schema, comps, tok, n_rand=max(2, per // 2))
        except (docs.Bottomless, RecursionError):
            continue
        for label, v, flags in insts[: per + 8]:
            if "oneof_ambiguous_instance" in flags or not docs.valid(schema, v, comps):
                continue  # not a valid instance of the schema (R-INSTANCE self-validation): never offered to the oracle
            acts.append({"a": "roundtrip", "cls": cls, "value": v, "x": {"ref": ref, "label": label, "flags": flags, "self_validated": True}})
    return acts


# ---------------------------------------------------------------------------------------- operations
def find_op(doc: dict, method: str, man_path: str):
    sk = skeleton(man_path)
    for path, m, op, item in docs.iter_ops(doc):
        if m == method and skeleton(path) == sk:
            return path, op, item
    return None


def effective_params(doc: dict, op: dict, item: dict) -> dict:
    """(name, in) -> parameter object; operation-level overrides path-item level; $ref'd parameters resolved."""
    out = {}
    pcomps = ((doc.get("components") or {}).get("parameters") or {})

    def res(p):
        if isinstance(p, dict) and "$ref" in p:
            return pcomps.get(p["$ref"].rsplit("/", 1)[-1])
        return p
    for p in (item.get("parameters") or []):
        p = res(p)
        if isinstance(p, dict) and "name" in p:
            out[(p["name"], p.get("in"))] = p
    for p in (op.get("parameters") or []):
        p = res(p)
        if isinstance(p, dict) and "name" in p:
            out[(p["name"], p.get("in"))] = p
    return out


def resolve_body(doc: dict, op: dict):
    b = op.get("requestBody")
    bc = ((doc.get("components") or {}).get("requestBodies") or {})
    n = 0
    while isinstance(b, dict) and "$ref" in b and n < 10:
        b = bc.get(b["$ref"].rsplit("/", 1)[-1])
        n += 1
    return b


def resolve_response(doc: dict, r):
    rc = ((doc.get("components") or {}).get("responses") or {})
    if isinstance(r, dict) and "$ref" in r:
        return rc.get(r["$ref"].rsplit("/", 1)[-1])
    return r


def py_is_str(pi: dict, v) -> bool:
    """Is the Python argument for JSON value v of parameter pi a str instance?"""
    k = pi["kind"]
    if k == "UnionProperty":
        m = pick_member(pi["inners"], v)
        return py_is_str(m, v) if m else isinstance(v, str)
    if k in ("EnumProperty", "LiteralEnumProperty"):
        return pi.get("value_type") == "str"
    if k in ("StringProperty", "AnyProperty", "ConstProperty"):
        return isinstance(v, str)
    return False


def runtime_class(pi: dict) -> str:
    k = pi["kind"]
    if k in ("ModelProperty", "EnumProperty"):
        return "cls:" + str(pi.get("cls"))
    if k == "LiteralEnumProperty":
        return pi.get("value_type", "str")
    return {"ListProperty": "list", "FileProperty": "File", "StringProperty": "str", "IntProperty": "int", "FloatProperty": "float", "BooleanProperty": "bool",
            "DateProperty": "date", "DateTimeProperty": "datetime", "UuidProperty": "UUID"}.get(k, k)


def file_bytes(tok: docs.Tok) -> bytes:
    return (f"file-{tok.next()}-".encode() + bytes([0, 255, 10, 13, 34]) + b"\xe2\x82\xac")


def body_plan(doc: dict, man: dict, man_ep: dict, op: dict, tok: docs.Tok, rng: random.Random, which: int | None = None):
    """Choose one of the generated bodies; returns (python descriptor, x-info) or None."""
    if not man_ep["bodies"]:
        return None
    body = resolve_body(doc, op)
    if not isinstance(body, dict):
        return None
    mb = man_ep["bodies"][rng.randrange(len(man_ep["bodies"])) if which is None else which % len(man_ep["bodies"])]
    media = (body.get("content") or {}).get(mb["content_type"])
    if not isinstance(media, dict) or "schema" not in media:
        return None
    comps = comps_of(doc)
    schema = media["schema"]
    bt = mb["body_type"]
    pi = mb["prop"]
    def overlap(a, b):
        return a == b or {a, b} in ({"bool", "int"}, {"date", "datetime"}) or "AnyProperty" in (a, b) or "UnionProperty" in (a, b)
    same = [o["content_type"] for o in man_ep["bodies"] if o is not mb and overlap(runtime_class(o["prop"]), runtime_class(pi))]
    x = {"media": mb["content_type"], "body_type": bt, "n_bodies": len(man_ep["bodies"]), "prop_kind": pi["kind"], "ambiguous_dispatch": bool(same)}
    if bt == "content":
        data = file_bytes(tok)
        x["bytes"] = base64.b64encode(data).decode()
        return {"$t": "file", "v": x["bytes"], "file_name": "f.bin", "mime_type": "application/octet-stream"}, x
    if bt == "files":
        # multipart: build the model through its constructor so that binary parts can be File objects
        rs = docs.resolve(schema, comps)
        if pi["kind"] != "ModelProperty" or pi["cls"] not in man["models"]:
            return None
        mprops = {p["name"]: p for p in man["models"][pi["cls"]]["props"]}
        mo = docs.merged_object(rs, comps)
        kwargs, parts = {}, {}
        for name, schemas in mo["properties"].items():
            if name not in mprops:
                return None
            req = name in mo["required"]
            if not req and rng.random() < 0.4 and mprops[name].get("default") is None:
                continue  # (a property with a default is never omitted: its default would be transmitted)
            ps = docs.resolve(docs.narrowest(schemas, comps), comps)
            if ps.get("format") == "binary":
                data = file_bytes(tok)
                kwargs[mprops[name]["python_name"]] = {"$t": "file", "v": base64.b64encode(data).decode(), "file_name": f"n{tok.next()}.bin", "mime_type": "application/x-verif"}
                parts[name] = {"file": base64.b64encode(data).decode(), "file_name": kwargs[mprops[name]["python_name"]]["file_name"], "mime_type": "application/x-verif"}
            else:
                v = docs.instance(ps, comps, tok, "rand", 1)
                if v is None:
                    v = docs.instance(ps, comps, tok, "max", 1)  # null has no defined multipart form
                if v is None:
                    if req:
                        return None
                    continue
                if mprops[name]["kind"] == "AnyProperty" and not isinstance(v, (str, int, float)):
                    v = tok.string()  # an untyped part has a defined wire form only for scalars
                kwargs[mprops[name]["python_name"]] = to_desc(mprops[name], v)
                parts[name] = {"json": v}
        x["parts"] = parts
        return {"$t": "init", "cls": pi["cls"], "kwargs": kwargs}, x
    tok.take_flags()
    tok.edge = 0.12 if bt == "json" else 0.0
    try:
        mode_ = rng.choice(["rand", "max", "min"])
        rs_ = docs.resolve(schema, comps) if isinstance(schema, dict) else {}
        if which is not None and isinstance(rs_, dict) and (rs_.get("oneOf") or rs_.get("anyOf")):
            v = docs.instance(schema, comps, tok, "max" if mode_ == "min" else mode_, 0, {"branch": which})  # union-typed body: the calls walk through the members
        else:
            v = docs.instance(schema, comps, tok, mode_)
    except (docs.Bottomless, RecursionError):
        return None
    tok.edge = 0.0
    if v is None:
        v = docs.instance(schema, comps, tok, "min")
        if v is None:
            return None
    if bt == "data" and isinstance(v, dict):
        v = {k: val for k, val in v.items() if val is not None and not isinstance(val, dict) and not (isinstance(val, list) and any(isinstance(i, (dict, list)) or i is None for i in val))}
    x["value"] = v
    x["flags"] = tok.take_flags()
    if "oneof_ambiguous_instance" in x["flags"]:
        return None
    return to_desc(pi, v), x


def response_plan(doc: dict, man_ep: dict, op: dict, tok: docs.Tok, rng: random.Random, want: str, overrides: dict | None = None, branch: int | None = None):
    """A canned server response.  want: 'documented' | 'undocumented'."""
    comps = comps_of(doc)
    documented = {str(r["status"]): r for r in man_ep["responses"]}
    marker = [["x-verif-marker", f"m-{tok.next()}"]]
    if want == "undocumented" or not documented:
        st = rng.choice([s for s in (200, 201, 203, 301, 400, 403, 404, 418, 500, 502) if str(s) not in (op.get("responses") or {})] or [599])
        # whatever a proxy or another server may answer: JSON, nothing, text in another encoding, compressed bytes
        body, ctype = rng.choice([(json.dumps({"unexpected": tok.string()}).encode(), "application/json"), (json.dumps({"unexpected": tok.string()}).encode(), "application/json"), (b"", "text/plain"),
                                  (b"Erreur du serveur mandataire: caf\xe9 ferm\xe9 \xa0\xff", "text/html; charset=iso-8859-1"), (b"\x1f\x8b\x08\x00\xff\xfe\x80\x81binary", "application/octet-stream")])
        return {"status": st, "headers": marker + [["content-type", ctype]], "content": base64.b64encode(body).decode()}, {"documented": False, "status": st, "marker": marker[0][1]}
    st = rng.choice(sorted(documented))
    mr = documented[st]
    rdoc = resolve_response(doc, (op.get("responses") or {}).get(st))
    x = {"documented": True, "status": int(st), "source": mr["source"], "prop": mr["prop"], "marker": marker[0][1]}
    content = (rdoc or {}).get("content") or {}
    if mr["source"] == "None" or not content:
        x["expect"] = "none"
        return {"status": int(st), "headers": marker, "content": ""}, x
    # the generator uses the first supported media type
    mt, media = None, None
    for k, v in content.items():
        base = (overrides or {}).get(k, k).split(";")[0].strip()
        if base.startswith("text/") or base in ("application/json", "application/octet-stream") or base.endswith("+json"):
            mt, media = k, v
            break
    if mt is None:
        x["expect"] = "none"
        return {"status": int(st), "headers": marker, "content": ""}, x
    schema = (media or {}).get("schema")
    base = (overrides or {}).get(mt, mt).split(";")[0].strip()  # the media type it behaves as; it is still served (and sent) as itself
    x["media"] = mt
    if schema is None:
        x["expect"] = "untyped"
        return {"status": int(st), "headers": marker + [["content-type", mt]], "content": base64.b64encode(b"{}").decode()}, x
    if base == "application/octet-stream" or (isinstance(schema, dict) and docs.resolve(schema, comps).get("format") == "binary" and docs.resolve(schema, comps).get("type") == "string"):
        # a binary schema is a file object built from the served bytes, whatever the media type (repository fix 3rd wave)
        data = file_bytes(tok)
        x["expect"] = "bytes"
        x["bytes"] = base64.b64encode(data).decode()
        return {"status": int(st), "headers": marker + [["content-type", mt]], "content": x["bytes"]}, x
    tok.take_flags()
    tok.edge = 0.12 if not base.startswith("text/") else 0.0
    try:
        mode_ = rng.choice(["rand", "max", "min"])
        rs_ = docs.resolve(schema, comps) if isinstance(schema, dict) else {}
        if branch is not None and isinstance(rs_, dict) and (rs_.get("oneOf") or rs_.get("anyOf")):
            # a union-typed response: the calls of one operation walk through the members in turn
            v = docs.instance(schema, comps, tok, "max" if mode_ == "min" else mode_, 0, {"branch": branch})
            x["union_branch"] = branch
        else:
            v = docs.instance(schema, comps, tok, mode_)
    except (docs.Bottomless, RecursionError):
        return None, None
    tok.edge = 0.0
    if v is None and not docs.nullable(schema, comps):
        return None, None
    x["flags"] = tok.take_flags()
    if "oneof_ambiguous_instance" in x["flags"]:
        return None, None
    if base.startswith("text/"):
        v = v if isinstance(v, str) else tok.string()
        x["expect"] = "text"
        x["value"] = v
        return {"status": int(st), "headers": marker + [["content-type", mt + "; charset=utf-8" if "charset" not in mt else mt]], "content": base64.b64encode(v.encode()).decode()}, x
    x["expect"] = "json"
    x["value"] = v
    x["untyped_schema"] = docs.resolve(schema, comps) == {}
    return {"status": int(st), "headers": marker + [["content-type", mt]], "content": base64.b64encode(json.dumps(v).encode()).decode()}, x


def plan_ops(doc: dict, man: dict, args: dict) -> list:
    rng = random.Random(args.get("seed", 0))
    tok = docs.Tok(rng)
    comps = comps_of(doc)
    _MAN["man"] = man
    acts = []
    if args.get("import", True):
        acts.append({"a": "import_all"})
    calls_per_op = int(args.get("calls_per_op", 3))
    variants_all = ["sync_detailed", "sync", "asyncio_detailed", "asyncio"]
    for ep in man["endpoints"]:
        found = find_op(doc, ep["method"], ep["path"])
        if not found:
            acts.append({"a": "endpoint_info", "module": f"api.{ep['tag']}.{ep['module']}", "x": {"unmatched": True, "ep": ep["name"]}})
            continue
        path, op, item = found
        eff = effective_params(doc, op, item)
        mod = f"api.{ep['tag']}.{ep['module']}"
        body_doc = resolve_body(doc, op)
        ovr = args.get("overrides") or {}
        sup = lambda mt: (lambda b: b in ("application/json", "application/x-www-form-urlencoded", "multipart/form-data", "application/octet-stream") or b.endswith("+json"))(ovr.get(mt, mt).split(";")[0].strip())  # noqa: E731
        acts.append({"a": "endpoint_info", "module": mod, "x": {"path": path, "method": ep["method"], "security": bool(op.get("security")),
                                                                 "doc_params": sorted([n, l] for (n, l), p in eff.items() if isinstance(p.get("schema"), dict) or "schema" in p),
                                                                 "doc_media": sorted(mt for mt, m in ((body_doc or {}).get("content") or {}).items() if sup(mt) and isinstance(m, dict) and "schema" in m) if isinstance(body_doc, dict) else [],
                                                                 "man_media": sorted(b["content_type"] for b in ep["bodies"]),
                                                                 "doc_statuses": sorted(str(st) for st in (op.get("responses") or {}) if str(st).isdigit()), "man_statuses": sorted(str(r["status"]) for r in ep["responses"]),
                                                                 "params": {loc: [{"name": p["name"], "python_name": p["python_name"], "required": p["required"], "has_default": p["default"] is not None} for p in ep["params"][loc]] for loc in ep["params"]},
                                                                 "n_bodies": len(ep["bodies"])}})
        for ci in range(calls_per_op):
            kwargs, wire, nonstr = {}, {"path": {}, "query": {}, "header": {}, "cookie": {}}, set()
            unset = {"query": [], "header": [], "cookie": []}
            ok = True
            for loc in ("path", "query", "header", "cookie"):
                for p in ep["params"][loc]:
                    dp = eff.get((p["name"], loc))
                    if dp is None:
                        ok = False
                        break
                    if not p["required"] and (ci == 1 or rng.random() < 0.35):
                        if p["default"] is not None and rng.random() < 0.5:
                            # UNSET passed explicitly: the argument's default does not apply and nothing is transmitted
                            kwargs[p["python_name"]] = {"$t": "unset"}
                            unset[loc].append({"name": p["name"], "has_default": False, "explicit_unset": True})
                            continue
                        unset[loc].append({"name": p["name"], "has_default": p["default"] is not None, "default_raw": (p["default"] or {}).get("raw")})
                        if p["default"] is not None and loc in ("header", "cookie") and not py_is_str(p, (p["default"] or {}).get("raw")):
                            # the default is transmitted in place of the omitted argument: same stringification question as for a passed value
                            nonstr.add(f"{loc}:{p['kind']}" if loc == "header" else loc)
                        continue
                    try:
                        tok.edge = 0.15 if loc != "path" else 0.0
                        tok.edge_ascii = loc in ("header", "cookie")
                        v = docs.instance(dp.get("schema", {}), comps, tok, "rand" if ci else "max", 1)
                        tok.edge, tok.edge_ascii = 0.0, False
                    except (docs.Bottomless, RecursionError):
                        tok.edge, tok.edge_ascii = 0.0, False
                        ok = False
                        break
                    if v is None:
                        v = docs.instance(dp.get("schema", {}), comps, tok, "min", 1)
                    if p["kind"] == "AnyProperty" and not isinstance(v, (str, int, float)):
                        v = tok.string()  # an untyped parameter has a defined wire form only for scalars
                    if v is None or (loc == "path" and (v == "" or v == [])):
                        if p["required"]:
                            ok = False
                            break
                        unset[loc].append({"name": p["name"], "has_default": p["default"] is not None, "default_raw": (p["default"] or {}).get("raw")})
                        continue
                    kwargs[p["python_name"]] = to_desc(p, v)
                    wire[loc][p["name"]] = v
                    if loc in ("header", "cookie") and not py_is_str(p, v):
                        nonstr.add(f"{loc}:{p['kind']}" if loc == "header" else loc)
            if not ok:
                continue
            x = {"path": path, "method": ep["method"], "wire": wire, "unset": unset, "security": bool(op.get("security")), "ep": ep["name"], "nonstr": sorted(nonstr)}
            bp = body_plan(doc, man, ep, op, tok, rng, which=ci)
            if ep["bodies"]:
                if bp is None:
                    continue
                kwargs["body"], x["body"] = bp
            want = "undocumented" if (ci == int(args.get("undocumented_call", 2)) or not ep["responses"]) else "documented"
            resp, x["response"] = response_plan(doc, ep, op, tok, rng, want, overrides=args.get("overrides"), branch=ci)
            if resp is None:
                continue
            raise_flag = rng.random() < (0.5 if want == "undocumented" else 0.3)
            client = {"auth": bool(op.get("security")) or rng.random() < 0.2, "token": f"tok-{tok.next()}", "raise": raise_flag}
            if client["auth"] and rng.random() < 0.3:
                client["prefix"] = rng.choice(["Token", "", "Basic"])
                client["auth_header_name"] = rng.choice(["Authorization", "X-Api-Key"])
            # client surface: the same call through a client derived with with_headers / with_cookies / with_timeout, built before or
            # after the underlying httpx client exists, used as a context manager (own random stream: the other draws stay as they were)
            r2 = random.Random(f"client-surface:{args.get('seed')}:{mod}:{ci}")
            if r2.random() < 0.35:
                taken = {n.lower() for n in wire["header"]} | {u["name"].lower() for u in unset["header"]} | {"authorization", "x-api-key", "content-type", "cookie"}
                derive = []
                if r2.random() < 0.3:
                    derive.append(["touch", None])
                for _ in range(r2.randint(1, 3)):
                    k = r2.choice(["with_headers", "with_cookies", "with_timeout"])
                    if k == "with_headers":
                        hn = f"X-Client-{tok.next()}"
                        if hn.lower() not in taken:
                            derive.append([k, {hn: f"hv-{tok.next()}"}])
                    elif k == "with_cookies":
                        cn = f"ck{tok.next()}"
                        if cn not in wire["cookie"] and all(u["name"] != cn for u in unset["cookie"]):
                            derive.append([k, {cn: f"cv-{tok.next()}"}])
                    else:
                        derive.append([k, 7.5])
                if r2.random() < 0.5:
                    # the derived client overrides entries the client was constructed with (several keys: the new value wins for each of them)
                    ov_h = {f"X-Base-{i_}-{tok.next()}": f"old-{i_}" for i_ in range(4)}
                    ov_c = {f"base{i_}x{tok.next()}": f"oldc-{i_}" for i_ in range(4)}
                    client["headers"], client["cookies"] = dict(ov_h), dict(ov_c)
                    derive.append(["with_headers", {k_: v_.replace("old", "new") for k_, v_ in ov_h.items()}])
                    derive.append(["with_cookies", {k_: v_.replace("old", "new") for k_, v_ in ov_c.items()}])
                if r2.random() < 0.2:
                    # the caller hands over an httpx client of their own: the operation's request still goes where the document says, through that client
                    derive = [["set_client", {"X-Own-Client": f"own-{tok.next()}"}]]
                    client.pop("headers", None)
                    client.pop("cookies", None)
                    client["own_httpx_client"] = True
                client["derive"] = derive
                client["context"] = r2.random() < 0.4
                client["extra_headers"] = {k_: v_ for st in derive if st[0] in ("with_headers", "set_client") for k_, v_ in st[1].items()}
                client["extra_cookies"] = {k_: v_ for st in derive if st[0] == "with_cookies" for k_, v_ in st[1].items()}
                if r2.random() < 0.3 and client.get("headers") and not client.get("own_httpx_client"):
                    # ... and entries given at construction that nothing overrides stay
                    client["headers"]["X-Kept-Zq"] = "kept"
                    client["extra_headers"]["X-Kept-Zq"] = "kept"
            x["client"] = client
            act_ = {"a": "call", "module": mod, "variants": variants_all if ci == 0 else rng.sample(variants_all, 2), "args": kwargs, "client": client, "response": resp, "x": x}
            # some calls ride on the client of the previous call (same or another operation) instead of a fresh one: whatever a call leaves on the
            # client - cookies, headers, the cached httpx client - meets the next request
            prev_ = acts[-1] if acts and acts[-1].get("a") == "call" else None
            if prev_ is not None and r2.random() < 0.3 and len(prev_.get("followups") or []) < 2 and bool(prev_["client"].get("auth")) == bool(client.get("auth")) and (ep["bodies"] == [] or bp is not None):
                x["client"] = prev_["client"]
                x["followup_of"] = prev_["module"]
                prev_.setdefault("followups", []).append({"module": mod, "args": kwargs, "response": resp, "x": x})
            else:
                acts.append(act_)
    return acts


def plan_models_given(doc: dict, man: dict, args: dict) -> list:
    """Round trips of explicitly given instances: args.instances = {reference path: [[label, value, flags], ...]}."""
    acts = []
    for ref, insts in (args.get("instances") or {}).items():
        ent = (man.get("refs") or {}).get(ref)
        if not ent or ent["kind"] != "ModelProperty" or ent["cls"] not in man["models"]:
            continue
        for label, v, flags in insts:
            acts.append({"a": "roundtrip", "cls": ent["cls"], "value": v, "x": {"ref": ref, "label": label, "flags": flags}})
    return acts


def plan_defaults(doc: dict, man: dict, args: dict) -> list:
    """Construct every component model with only its required arguments (defaults take effect) and list enum members."""
    rng = random.Random(args.get("seed", 0))
    tok = docs.Tok(rng)
    comps = comps_of(doc)
    acts = []
    for name, schema in comps.items():
        ref = f"/components/schemas/{name}"
        ent = (man.get("refs") or {}).get(ref)
        if not ent:
            continue
        if ent["kind"] in ("EnumProperty", "LiteralEnumProperty") and isinstance(schema.get("enum"), list):
            acts.append({"a": "enum_info", "cls": ent["cls"], "x": {"ref": ref, "values": [v for v in schema["enum"] if v is not None]}})
        if ent["kind"] != "ModelProperty" or ent["cls"] not in man["models"] or not docs.is_objectish(schema, comps):
            continue
        m = man["models"][ent["cls"]]
        try:
            v = docs.instance(schema, comps, tok, "min")
        except (docs.Bottomless, RecursionError):
            continue
        if not isinstance(v, dict):
            continue
        kwargs, okk = {}, True
        for p in m["props"]:
            if p["required"] and p["default"] is None:
                if p["name"] not in v:
                    okk = False
                    break
                kwargs[p["python_name"]] = to_desc(p, v[p["name"]])
        if not okk:
            continue
        mo = docs.merged_object(schema, comps)
        exp = {}
        for p in m["props"]:
            if p["default"] is not None and p["name"] in mo["properties"]:
                ps = docs.narrowest(mo["properties"][p["name"]], comps)
                dv = ps.get("default") if isinstance(ps, dict) else None
                rs_ = docs.resolve(ps, comps) if isinstance(ps, dict) else {}
                t_ = rs_.get("type")
                if isinstance(t_, list):
                    t_ = next((x_ for x_ in t_ if x_ != "null"), None)
                if isinstance(dv, str) and t_ == "string" and not rs_.get("format") and "enum" not in rs_:
                    exp[p["name"]] = dv
                elif isinstance(dv, str) and ps == {"default": dv}:
                    exp[p["name"]] = dv
                elif args.get("typed_defaults") and dv is not None and not isinstance(dv, (list, dict)):
                    # valid defaults in canonical spelling (the random generator's): the omitted argument encodes as the default
                    if "enum" in rs_:
                        if dv in rs_["enum"]:
                            exp[p["name"]] = dv
                    elif (t_ == "string" and isinstance(dv, str)) or (t_ == "integer" and isinstance(dv, int) and not isinstance(dv, bool)) or \
                            (t_ == "number" and isinstance(dv, (int, float)) and not isinstance(dv, bool)) or (t_ == "boolean" and isinstance(dv, bool)):
                        exp[p["name"]] = dv
        acts.append({"a": "construct", "cls": ent["cls"], "kwargs": kwargs, "x": {"ref": ref, "expect_defaults": exp, "required_values": {p["name"]: v[p["name"]] for p in m["props"] if p["required"] and p["default"] is None}}})
    return acts


def plan_c13rand(doc, man, args):
    a = dict(args, typed_defaults=True)
    return plan_defaults(doc, man, a) + plan_ops(doc, man, dict(a, calls_per_op=2))


def plan_c05(doc, man, args):
    a = dict(args)
    out = plan_models(doc, man, a)
    a["import"] = False
    out += plan_defaults(doc, man, a)
    out += plan_ops(doc, man, a)
    # rejection probes: a wrong value for every const property of every component model
    comps = comps_of(doc)
    for name, schema in comps.items():
        ent = (man.get("refs") or {}).get(f"/components/schemas/{name}")
        if not ent or ent["kind"] != "ModelProperty" or ent["cls"] not in man["models"] or not isinstance(schema.get("properties"), dict):
            continue
        try:
            base = docs.instance(schema, comps, docs.Tok(random.Random(7)), "min")
        except (docs.Bottomless, RecursionError):
            continue
        if not isinstance(base, dict):
            continue
        for pn, ps in schema["properties"].items():
            if isinstance(ps, dict) and "const" in ps and isinstance(ps["const"], str):
                out.append({"a": "roundtrip", "cls": ent["cls"], "value": dict(base, **{pn: "WRONG-" + ps["const"]}), "x": {"expect_reject": True, "prop": pn}})
    return out


def plan_c14(doc: dict, man: dict, args: dict) -> list:
    from .oracles.c14 import unlisted
    acts = []
    for key, case in (args.get("cases") or {}).items():
        ent = (man.get("refs") or {}).get(f"/components/schemas/{key}")
        if not ent or ent["kind"] != "ModelProperty" or ent["cls"] not in man["models"]:
            continue
        m = man["models"][ent["cls"]]
        if not m["props"]:
            continue
        pi = m["props"][0]

        def find_enum(p):
            if p["kind"] in ("EnumProperty", "LiteralEnumProperty"):
                return p
            for sub in ([p["inner"]] if "inner" in p else []) + (p.get("inners") or []):
                f = find_enum(sub)
                if f:
                    return f
            return None
        cls = ent["cls"]
        pn = case.get("prop", "p")
        if "values" in case:
            ep = find_enum(pi)
            if ep and not case.get("clash"):
                acts.append({"a": "enum_info", "cls": ep["cls"], "x": {"case": key, "what": "members"}})
            for v in case["values"]:
                acts.append({"a": "roundtrip", "cls": cls, "value": {pn: v}, "x": {"case": key, "what": "listed", "py": pi["python_name"]}})
            for v in unlisted(case["values"]) + [v_ for v_ in case.get("extra_unlisted") or [] if v_ not in unlisted(case["values"])]:
                acts.append({"a": "roundtrip", "cls": cls, "value": {pn: v}, "x": {"case": key, "what": "unlisted"}})
            acts.append({"a": "roundtrip", "cls": cls, "value": {pn: None}, "x": {"case": key, "what": "null" if case.get("null") else "null_unlisted"}})
        else:
            c = case["const"]
            acts.append({"a": "roundtrip", "cls": cls, "value": {"p": c}, "x": {"case": key, "what": "listed"}})
            others = [x for x in ["zz", "", 0, 1, 7, 8, 2.5, 3.5, True, False, None, [c], {"k": c}, (c + "x") if isinstance(c, str) else c + 1] if not (type(x) is type(c) and x == c)]
            for v in others:
                acts.append({"a": "roundtrip", "cls": cls, "value": {"p": v}, "x": {"case": key, "what": "unlisted"}})
    return acts


def plan_c14params(doc: dict, man: dict, args: dict) -> list:
    """Every parameter whose enum lists null: one call passing None, one call per listed value."""
    acts = []
    for ep in man.get("endpoints") or []:
        found = find_op(doc, ep["method"], ep["path"])
        if not found:
            continue
        path, op, item = found
        eff = effective_params(doc, op, item)
        mod = f"api.{ep['tag']}.{ep['module']}"
        base = {}
        okk = True
        for loc in ("path", "query", "header", "cookie"):
            for p in ep["params"][loc]:
                if p["required"]:
                    dp = eff.get((p["name"], loc))
                    vals = [v for v in (docs.resolve((dp or {}).get("schema") or {}, comps_of(doc)).get("enum") or []) if v is not None]
                    if not vals:
                        okk = False
                    else:
                        base[p["python_name"]] = to_desc(p, vals[0])
        if not okk:
            continue
        nullable_params = [p["python_name"] for loc in ("query", "header", "cookie") for p in ep["params"][loc]
                           if None in (docs.resolve((eff.get((p["name"], loc)) or {}).get("schema") or {}, comps_of(doc)).get("enum") or [])]
        acts.append({"a": "endpoint_info", "module": mod, "x": {"case": ep["name"], "signature": True, "null_listing": nullable_params}})
        for loc in ("query", "header", "cookie"):
            for p in ep["params"][loc]:
                dp = eff.get((p["name"], loc))
                sch = docs.resolve((dp or {}).get("schema") or {}, comps_of(doc))
                if not isinstance(sch.get("enum"), list) or (None not in sch["enum"] and not args.get("all_enums")):
                    continue
                for v in sch["enum"]:
                    acts.append({"a": "call", "module": mod, "variants": ["sync_detailed"], "args": dict(base, **{p["python_name"]: (None if v is None else to_desc(p, v))}), "client": {}, "response": {"status": 200},
                                 "x": {"case": ep["name"], "param": p["name"], "loc": loc, "value": v}})
    return acts


def plan_c13(doc: dict, man: dict, args: dict) -> list:
    acts = []
    eps = {e["name"]: e for e in man.get("endpoints") or []}
    for key, case in (args.get("cases") or {}).items():
        route = case["route"]
        if route in ("direct", "ref", "ref_nullable", "allof", "allof_any_base", "shared_enum_name"):
            ent = (man.get("refs") or {}).get(f"/components/schemas/{key}")
            if ent and ent["kind"] == "ModelProperty" and ent["cls"] in man["models"]:
                acts.append({"a": "construct", "cls": ent["cls"], "kwargs": {}, "x": {"case": key}})
        else:
            e = eps.get(f"op_{key.lower()}")
            if e:
                mod = f"api.{e['tag']}.{e['module']}"
                acts.append({"a": "endpoint_info", "module": mod, "x": {"case": key}})
                acts.append({"a": "call", "module": mod, "variants": ["sync_detailed"], "args": {}, "client": {}, "response": {"status": 200}, "x": {"case": key}})
    return acts


def plan_c10(doc, man, args):
    a = dict(args, per_model=12)
    a["import"] = False
    out = plan_models(doc, man, a)
    a["calls_per_op"] = int(args.get("calls_per_op", 3))
    # signatures and - for the tri-state of parameters on the wire - the calls themselves (edge values included: 0, false, "" are *present*)
    out += [x for x in plan_ops(doc, man, a) if x["a"] in ("endpoint_info", "call")]
    return out


def plan_c15(doc, man, args):
    acts = []
    for ci in args.get("cases") or []:
        for order in ("X", "Y"):
            ent = (man.get("refs") or {}).get(f"/components/schemas/{order}{ci}")
            if not ent or ent["kind"] != "ModelProperty" or ent["cls"] not in man["models"]:
                continue
            for probe in args.get("probes") or []:
                acts.append({"a": "roundtrip", "cls": ent["cls"], "value": {"p": probe, "only_b": 5}, "x": {"case": ci, "order": order, "ref": f"/components/schemas/{order}{ci}"}})
    return acts


def plan_c18_ops(doc, man, args):
    N, loc, body = args["N"], args["loc"], args["body"]
    acts = []
    for ep in man["endpoints"]:
        py = {}
        for l in ("path", "query", "header", "cookie"):
            for p in ep["params"][l]:
                py[(l, p["name"])] = p["python_name"]
        kwargs = {}
        vals = {(loc, N): "val", ("path", N + "Id"): "sib", ("query", "other"): "ov", ("header", "hh"): "hv", ("cookie", "cc"): "cv", ("query", "lstq"): {"$t": "list", "v": [{"$t": "date", "v": "2020-01-02"}]}}
        for k, v in vals.items():
            if k in py:
                kwargs[py[k]] = v
        if body and ep["bodies"]:
            kwargs["body"] = {"$t": "model", "cls": ep["bodies"][0]["prop"]["cls"], "v": {"b": "bv"}}
        acts.append({"a": "call", "module": f"api.{ep['tag']}.{ep['module']}", "variants": ["sync_detailed", "asyncio_detailed", "sync", "asyncio"], "args": kwargs, "client": {},
                     "response": {"status": 200, "headers": [["content-type", "application/json"]], "content": "eyJyIjogIngifQ=="}, "x": {}})
    return acts


def plan_c18_typed(doc, man, args):
    """C18 typed scope: per kind a model T<kind> {N: <kind>, other: integer} that is a JSON value, a JSON body and a
    multipart body.  args.values = {kind: JSON value for N}."""
    N = args["N"]
    acts = []
    for kind, val in (args.get("values") or {}).items():
        ent = (man.get("refs") or {}).get(f"/components/schemas/T{kind}")
        if not ent or ent["kind"] != "ModelProperty" or ent["cls"] not in man["models"]:
            acts.append({"a": "getattr", "name": "__vf_missing__", "x": {"typed": kind, "what": "missing"}})
            continue
        for label, v in (("full", {N: val, "other": 1}), ("absent", {"other": 2})):
            acts.append({"a": "roundtrip", "cls": ent["cls"], "value": v, "x": {"typed": kind, "what": "roundtrip:" + label, "ref": f"/components/schemas/T{kind}"}})
        for ep in man["endpoints"]:
            if ep["path"].rstrip("/").endswith("/" + kind) and ep["bodies"]:
                acts.append({"a": "call", "module": f"api.{ep['tag']}.{ep['module']}", "variants": ["sync_detailed"], "args": {"body": {"$t": "model", "cls": ent["cls"], "v": {N: val, "other": 1}}}, "client": {},
                             "response": {"status": 200}, "x": {"typed": kind, "what": "call:" + ep["path"].split("/")[1]}})
    return acts


def _member_value(pi: dict):
    k = pi["kind"]
    if k == "StringProperty":
        return "s-1"
    if k == "IntProperty":
        return 3
    if k == "FloatProperty":
        return 1.5
    if k == "BooleanProperty":
        return True
    if k == "DateProperty":
        return {"$t": "date", "v": "2020-01-02"}
    if k == "DateTimeProperty":
        return {"$t": "datetime", "v": "2020-01-02T03:04:05+00:00"}
    if k == "UuidProperty":
        return {"$t": "uuid", "v": "00000000-0000-4000-8000-0000000000aa"}
    if k == "EnumProperty":
        vals = list(pi["values"].values()) if isinstance(pi["values"], dict) else list(pi["values"])
        return {"$t": "enum", "cls": pi["cls"], "v": vals[0]} if vals else None
    if k == "LiteralEnumProperty":
        vals = list(pi["values"])
        return vals[0] if vals else None
    if k == "ConstProperty":
        return pi["const"]["raw"]
    if k == "ListProperty":
        inner = _member_value(pi["inner"])
        return None if inner is None else {"$t": "list", "v": [inner]}
    if k == "AnyProperty":
        return "anyv"
    return None


def plan_c11(doc, man, args):
    a = dict(args, per_model=8, calls_per_op=2)
    a["import"] = True
    out = plan_models(doc, man, a)
    a["import"] = False
    out += [x for x in plan_import_info(doc, man, a) if x["a"] != "import_all"]
    out += [x for x in plan_ops(doc, man, a) if x["a"] == "call"]
    # encoder acceptance of every value admitted by a parameter annotation
    for ep in man["endpoints"]:
        if ep["bodies"]:
            continue
        base = {}
        okb = True
        for loc in ("path", "query", "header", "cookie"):
            for p in ep["params"][loc]:
                if p["required"]:
                    v = _member_value(p if p["kind"] != "UnionProperty" else p["inners"][0])
                    if v is None:
                        okb = False
                    base[p["python_name"]] = v
        if not okb:
            continue
        mod = f"api.{ep['tag']}.{ep['module']}"
        for loc in ("query", "header", "cookie"):
            for p in ep["params"][loc]:
                members = []
                inners = p["inners"] if p["kind"] == "UnionProperty" else [p]
                for i, pi in enumerate(inners):
                    if pi["kind"] == "NoneProperty":
                        members.append(("None", None))
                    else:
                        mv = _member_value(pi)
                        if mv is not None:
                            members.append((pi["kind"], mv))
                if not p["required"]:
                    members.append(("UNSET", {"$t": "unset"}))
                for mname, mv in members:
                    out.append({"a": "get_kwargs", "module": mod, "args": dict(base, **{p["python_name"]: mv}), "x": {"param": p["name"], "member": mname, "loc": loc}})
    return out


def plan_import(doc, man, args):
    return [{"a": "import_all"}]


def plan_import_info(doc, man, args):
    """import_all + the declared fields of every model and the signatures of every endpoint (C11: defaults conform to annotations)."""
    acts = [{"a": "import_all"}]
    for cls in sorted((man.get("models") or {})):
        acts.append({"a": "model_info", "cls": cls, "x": {}})
    for ep in man.get("endpoints") or []:
        acts.append({"a": "endpoint_info", "module": f"api.{ep['tag']}.{ep['module']}", "x": {"ep": ep["name"]}})
    return acts


PLANS = {"c18_typed": plan_c18_typed, "import_info": plan_import_info, "c14params": plan_c14params, "c13rand": plan_c13rand, "models": plan_models, "ops": plan_ops, "import": plan_import, "models_given": plan_models_given, "defaults": plan_defaults, "c05": plan_c05, "c14": plan_c14, "c13": plan_c13, "c10": plan_c10, "c15": plan_c15, "c18_ops": plan_c18_ops, "c11": plan_c11}
