"""Reference models (DESIGN.md 3.4): deterministic oracles over recorded sandbox observations.

Every function returns a list of problems `(effect, detail)`; `effect` comes from a finite vocabulary so that it can
be part of a known-finding key.  The models describe *specified behaviour* (what a correct request / decode is),
never the generator's implementation.
"""
from __future__ import annotations

import base64
import email.parser
import email.policy
import json
import math
import re
import urllib.parse

DEFAULT_HEADERS = {"host", "accept", "accept-encoding", "connection", "user-agent", "content-length", "content-type", "transfer-encoding", "cookie"}


# ---------------------------------------------------------------------------------------- JSON equality
def jeq(a, b) -> bool:
    """JSON equality: bool distinct from number, numbers compared numerically, key sets exact."""
    if isinstance(a, bool) or isinstance(b, bool):
        return isinstance(a, bool) and isinstance(b, bool) and a == b
    if isinstance(a, (int, float)) and isinstance(b, (int, float)):
        return a == b or (isinstance(a, float) and isinstance(b, float) and math.isnan(a) and math.isnan(b))
    if isinstance(a, str) and isinstance(b, str):
        return a == b
    if a is None or b is None:
        return a is None and b is None
    if isinstance(a, list) and isinstance(b, list):
        return len(a) == len(b) and all(jeq(x, y) for x, y in zip(a, b))
    if isinstance(a, dict) and isinstance(b, dict):
        return set(a) == set(b) and all(jeq(a[k], b[k]) for k in a)
    return False


def jdiff(a, b, path="$") -> str:
    if isinstance(a, dict) and isinstance(b, dict):
        for k in sorted(set(a) | set(b)):
            if k not in a:
                return f"{path}.{k}: missing in encoded (expected {json.dumps(b[k])[:60]})"
            if k not in b:
                return f"{path}.{k}: extra in encoded ({json.dumps(a[k])[:60]})"
            if not jeq(a[k], b[k]):
                return jdiff(a[k], b[k], f"{path}.{k}")
        return ""
    if isinstance(a, list) and isinstance(b, list) and len(a) == len(b):
        for i, (x, y) in enumerate(zip(a, b)):
            if not jeq(x, y):
                return jdiff(x, y, f"{path}[{i}]")
    return f"{path}: got {json.dumps(a)[:80]} expected {json.dumps(b)[:80]}"


def desc_to_json(d):
    """Plain JSON image of a sandbox value description (used for parsed responses: models by their attribute tree)."""
    t = d.get("t")
    if t in ("None",):
        return None
    if t in ("bool", "int", "float", "str", "date", "datetime", "UUID", "strsub", "intsub"):
        return d["v"]
    if t == "enum":
        return desc_to_json(d["v"])
    if t in ("list", "tuple"):
        return [desc_to_json(i) for i in d["v"]]
    if t == "dict":
        return {k: desc_to_json(v) for k, v in d["v"].items()}
    return {"$" + str(t): d}


# ---------------------------------------------------------------------------------------- scalar spelling on the wire
def spell_ok(v, wire: str) -> bool:
    """Tolerant on scalar *spelling* inside a slot (Appendix A), strict on strings."""
    if isinstance(v, bool):
        return wire.lower() == ("true" if v else "false")
    if isinstance(v, int):
        try:
            return wire.strip() == str(v) or float(wire) == v
        except ValueError:
            return False
    if isinstance(v, float):
        try:
            return float(wire) == v
        except ValueError:
            return False
    if isinstance(v, str):
        if wire == v:
            return True
        # date-times may be spelled with a space instead of 'T' in path slots
        return bool(re.match(r"^\d{4}-\d\d-\d\d[T ]\d\d:", v)) and wire.replace(" ", "T") == v
    return False


def kind_of(v) -> str:
    if isinstance(v, bool):
        return "boolean"
    if isinstance(v, int):
        return "integer"
    if isinstance(v, float):
        return "number"
    if isinstance(v, str):
        return "string"
    if isinstance(v, list):
        return "array"
    if isinstance(v, dict):
        return "object"
    return "null"


# ---------------------------------------------------------------------------------------- R-REQUEST
def parse_multipart(content: bytes, ctype: str) -> dict:
    msg = email.parser.BytesParser(policy=email.policy.HTTP).parsebytes(b"Content-Type: " + ctype.encode() + b"\r\n\r\n" + content)
    parts = {}
    for part in msg.iter_parts():
        name = part.get_param("name", header="content-disposition")
        parts.setdefault(name, []).append({"filename": part.get_filename(), "ctype": part.get_content_type(), "payload": part.get_payload(decode=True)})
    return parts


def check_request(cap: dict, x: dict, base_path: str = "/base") -> list:
    """cap: captured request (sandbox M-HTTP); x: the wire-level call description built by plans.plan_ops."""
    probs = []
    if cap["method"].lower() != x["method"].lower():
        probs.append(("wrong_method", f"sent {cap['method']} expected {x['method'].upper()}"))
    # ---- path: literals fixed, placeholders filled in their own slots
    tmpl = x["path"]
    rx, names_ = "", []
    for part in re.split(r"(\{[^}]*\})", tmpl):
        if part.startswith("{") and part.endswith("}"):
            names_.append(part[1:-1])
            rx += "(.*?)"
        else:
            rx += re.escape(part)
    m = re.fullmatch(re.escape(base_path) + rx, cap["path"])
    if not m:
        probs.append(("wrong_path", f"path {cap['path']!r} does not instantiate {tmpl!r}"))
    else:
        for nm, got in zip(names_, m.groups()):
            v = x["wire"]["path"].get(nm)
            if isinstance(v, (list, dict)):
                continue  # no defined spelling for arrays/objects in a path slot (Appendix A)
            if v is None or not spell_ok(v, got):
                probs.append((f"wrong_slot:path:{kind_of(v)}", f"path slot {{{nm}}} holds {got!r}, argument was {v!r}"))
    # ---- query
    expq = []
    for nm, v in x["wire"]["query"].items():
        if isinstance(v, list):
            expq += [(nm, i) for i in v]
        elif isinstance(v, dict):
            expq += [(k, i) for k, i in v.items()]
        else:
            expq.append((nm, v))
    for u in x["unset"]["query"]:
        # omitting an argument that has a declared default transmits that default (C13)
        if u.get("has_default") and u.get("default_raw") is not None and not isinstance(u["default_raw"], (list, dict)):
            expq.append((u["name"], u["default_raw"]))
    got = [tuple(q) for q in cap["query"]]
    for nm, v in expq:
        hit = next((g for g in got if g[0] == nm and spell_ok(v, g[1])), None)
        if hit is None:
            near = [g for g in got if g[0] == nm]
            probs.append((f"missing:query:{kind_of(v)}", f"query {nm!r}={v!r} not sent (same-name entries: {near[:3]}; all: {got[:6]})"))
        else:
            got.remove(hit)
    for g in got:
        probs.append(("extra:query", f"unexpected query entry {g!r}"))
    # ---- headers
    hdrs = {}
    for k, v in cap["headers"]:
        hdrs.setdefault(k.lower(), []).append(v)
    for nm, v in x["wire"]["header"].items():
        vals = hdrs.get(nm.lower())
        if not vals or not any(spell_ok(v, w) for w in vals):
            probs.append((f"missing:header:{kind_of(v)}", f"header {nm!r}={v!r} not sent as such (got {vals})"))
    for u in x["unset"]["header"]:
        if u["name"].lower() in hdrs and u["name"].lower() not in DEFAULT_HEADERS and not u.get("has_default"):
            probs.append(("extra:header", f"unset optional header {u['name']!r} transmitted as {hdrs[u['name'].lower()]}"))
    # ---- cookies
    jar = {}
    for c in hdrs.get("cookie", []):
        for piece in c.split("; "):
            if "=" in piece:
                k, _, v = piece.partition("=")
                jar[k] = v
    for nm, v in x["wire"]["cookie"].items():
        if nm not in jar or not (spell_ok(v, jar[nm]) if not isinstance(v, (list, dict)) else True):
            probs.append((f"missing:cookie:{kind_of(v)}", f"cookie {nm!r}={v!r} not sent (jar {jar})"))
    for u in x["unset"]["cookie"]:
        if u["name"] in jar and not u.get("has_default"):
            probs.append(("extra:cookie", f"unset optional cookie {u['name']!r} transmitted"))
    exp_cookie_names = set(x["wire"]["cookie"]) | {u["name"] for u in x["unset"]["cookie"] if u.get("has_default")} | set((x.get("client") or {}).get("extra_cookies") or {})
    for k in jar:
        if k not in exp_cookie_names:
            probs.append(("extra:cookie", f"unexpected cookie {k!r}"))
    for u in x["unset"]["query"]:
        if any(g[0] == u["name"] for g in cap["query"]) and not u.get("has_default"):
            probs.append(("extra:query", f"unset optional query parameter {u['name']!r} transmitted"))
    # ---- auth, client-level additions
    cl = x.get("client") or {}
    for hn_, hv_ in (cl.get("extra_headers") or {}).items():
        if hdrs.get(hn_.lower()) != [hv_]:
            probs.append(("client_header", f"header {hn_!r} given through with_headers is {hdrs.get(hn_.lower())} expected [{hv_!r}]"))
    for cn_, cv_ in (cl.get("extra_cookies") or {}).items():
        if jar.get(cn_) != cv_:
            probs.append(("client_cookie", f"cookie {cn_!r} given through with_cookies is {jar.get(cn_)!r} expected {cv_!r}"))
    if cl.get("auth") and not cl.get("own_httpx_client"):  # (a caller-supplied httpx client replaces the generated client's own settings, as documented)
        hn = cl.get("auth_header_name", "Authorization").lower()
        prefix = cl.get("prefix", "Bearer")
        want = f"{prefix} {cl['token']}" if prefix else cl["token"]
        if hdrs.get(hn) != [want]:
            probs.append(("auth_header", f"credential header {hn!r} is {hdrs.get(hn)} expected [{want!r}]"))
    # ---- body
    content = base64.b64decode(cap["content"])
    ctype = (hdrs.get("content-type") or [None])[0]
    b = x.get("body")
    if b is None:
        if content:
            probs.append(("extra:body", f"body sent though the operation declares none: {content[:60]!r}"))
    else:
        bt = b["body_type"]
        if bt == "files" and not b["parts"]:
            pass  # a multipart body without any part has nothing to transmit
        elif bt == "files":
            parse_as = ctype
            if b["media"].split(";")[0].strip().lower() != "multipart/form-data":
                # a media type that content_type_overrides maps to multipart: encoded as multipart, sent as itself
                m_ = re.match(rb"--([^\r\n]+)\r\n", content)
                parse_as = f"multipart/form-data; boundary={m_.group(1).decode('ascii', 'replace')}" if m_ else None
                if ctype != b["media"]:
                    probs.append(("content_type:files", f"Content-Type {ctype!r} expected {b['media']!r} (overridden media type)"))
                    parse_as = None
            if not parse_as or not parse_as.startswith("multipart/form-data; boundary="):
                if parse_as is ctype:
                    probs.append(("content_type:multipart", f"Content-Type {ctype!r} for a multipart body"))
            else:
                parts = parse_multipart(content, parse_as)
                for nm, spec in b["parts"].items():
                    got = parts.get(nm)
                    if not got:
                        probs.append(("missing:part", f"multipart part {nm!r} missing (parts {sorted(map(str, parts))})"))
                        continue
                    if "file" in spec:
                        if got[0]["payload"] != base64.b64decode(spec["file"]):
                            probs.append(("wrong_slot:part_file", f"file part {nm!r} payload differs"))
                        if got[0]["filename"] != spec["file_name"]:
                            probs.append(("wrong_slot:part_filename", f"file part {nm!r} filename {got[0]['filename']!r}"))
                    else:
                        v = spec["json"]
                        text = (got[0]["payload"] or b"").decode("utf-8", "replace")
                        if isinstance(v, (list, dict)):
                            try:
                                if not jeq(json.loads(text), v):
                                    probs.append(("wrong_slot:part_json", f"part {nm!r} = {text[:60]!r} expected {v!r}"))
                            except ValueError:
                                probs.append(("wrong_slot:part_json", f"part {nm!r} = {text[:60]!r} not JSON"))
                        elif not spell_ok(v, text) and not (isinstance(v, bool) and text in ("True", "False") and text.lower() == str(v).lower()):
                            probs.append((f"wrong_slot:part:{kind_of(v)}", f"part {nm!r} = {text[:60]!r} expected {v!r}"))
                for nm in parts:
                    if nm not in b["parts"]:
                        probs.append(("extra:part", f"unexpected multipart part {nm!r}"))
        else:
            if ctype != b["media"]:
                probs.append((f"content_type:{bt}", f"Content-Type {ctype!r} expected {b['media']!r}"))
            if bt == "content":
                if content != base64.b64decode(b["bytes"]):
                    probs.append(("wrong_body:content", "raw body bytes differ"))
            elif bt == "json":
                try:
                    gotj = json.loads(content)
                    if not jeq(gotj, b["value"]):
                        probs.append(("wrong_body:json", "JSON body differs: " + jdiff(gotj, b["value"])))
                except ValueError:
                    probs.append(("wrong_body:json", f"body is not JSON: {content[:80]!r}"))
            elif bt == "data":
                pairs = urllib.parse.parse_qsl(content.decode("utf-8", "replace"), keep_blank_values=True)
                exp = []
                for k, v in (b["value"] or {}).items():
                    if isinstance(v, list):
                        exp += [(k, i) for i in v]
                    elif v is None:
                        continue
                    else:
                        exp.append((k, v))
                for k, v in exp:
                    hit = next((p for p in pairs if p[0] == k and (spell_ok(v, p[1]) if not isinstance(v, (dict, list)) else True)), None)
                    if hit is None:
                        probs.append((f"missing:form:{kind_of(v)}", f"form field {k!r}={v!r} not sent ({pairs[:6]})"))
                    else:
                        pairs.remove(hit)
                for p in pairs:
                    probs.append(("extra:form", f"unexpected form field {p!r}"))
    return probs


# ---------------------------------------------------------------------------------------- R-RESPONSE
def check_response(variant: str, res: dict, x: dict, raise_flag: bool) -> list:
    """res: sandbox result of one call variant; x: response plan info."""
    probs = []
    detailed = variant.endswith("detailed")
    exc = res.get("exc")
    if not x["documented"]:
        if raise_flag:
            if not exc or exc["type"] != "UnexpectedStatus":
                probs.append(("no_unexpected_status_error", f"undocumented status {x['status']} with raise_on_unexpected_status=True: {('raised ' + exc['type']) if exc else 'no exception'}"))
            else:
                if exc.get("status_code") != x["status"]:
                    probs.append(("unexpected_status_fields", f"UnexpectedStatus.status_code={exc.get('status_code')} expected {x['status']}"))
            return probs
        if exc:
            probs.append((f"exception:{exc['type']}", f"undocumented status {x['status']} raised {exc['type']}: {exc['msg'][:100]}"))
            return probs
        r = res["result"]
        parsed = r["parsed"] if detailed else r
        if parsed.get("t") != "None":
            probs.append(("parsed_for_undocumented", f"undocumented status {x['status']} parsed to {parsed.get('t')}"))
        if detailed:
            probs += _raw_fields(r, x)
        return probs
    if exc:
        probs.append((f"exception:{exc['type']}", f"documented status {x['status']} raised {exc['type']}: {exc['msg'][:160]} at {exc.get('where')}"))
        return probs
    r = res["result"]
    if detailed:
        if r.get("t") != "Response":
            probs.append(("not_response_object", f"detailed variant returned {r.get('t')}"))
            return probs
        probs += _raw_fields(r, x)
        parsed = r["parsed"]
    else:
        parsed = r
    e = x.get("expect")
    if e == "none":
        if parsed.get("t") != "None":
            probs.append(("parsed_for_no_content", f"no-content response parsed to {parsed.get('t')}"))
    elif e == "text":
        if parsed.get("t") != "str" or parsed.get("v") != x["value"]:
            probs.append(("wrong_parsed:text", f"text response parsed to {str(parsed)[:100]} expected {x['value']!r}"))
    elif e == "bytes":
        if parsed.get("t") != "File" or parsed.get("payload") != x["bytes"]:
            probs.append(("wrong_parsed:binary", f"binary response parsed to {parsed.get('t')}"))
    elif e == "json" and not x.get("untyped_schema"):
        got = parsed_to_json(parsed)
        if not jeq(got, x["value"]):
            probs.append((f"wrong_parsed:json:{x['prop']['kind']}", f"JSON response {json.dumps(x['value'])[:100]} parsed to {json.dumps(got)[:160]}: {jdiff(got, x['value'])}"))
    for tp in res.get("type_problems") or []:
        probs.append(("annotation_mismatch:response", tp))
    return probs


def _raw_fields(r: dict, x: dict) -> list:
    probs = []
    if r["status_code"].get("v") != x["status"]:
        probs.append(("wrong_raw:status", f"Response.status_code={r['status_code']} expected {x['status']}"))
    hs = {k.lower(): v for k, v in (r.get("headers") or [])}
    if hs.get("x-verif-marker") != x["marker"]:
        probs.append(("wrong_raw:headers", f"Response.headers lacks the served marker header ({hs})"))
    return probs


def parsed_to_json(d):
    """JSON image of a parsed value: models by their own to_dict() (recorded by the sandbox), rich scalars by wire form."""
    t = d.get("t")
    if t == "model":
        if "json" in d:
            return d["json"]
        return {"$model": d["cls"], "exc": d.get("json_exc")}
    if t in ("list", "tuple"):
        return [parsed_to_json(i) for i in d["v"]]
    if t == "dict":
        return {k: parsed_to_json(v) for k, v in d["v"].items()}
    return desc_to_json(d)
