"""Shared plumbing: paths, seeds, scratch directories, evidence writer, verdict handling."""
from __future__ import annotations

import hashlib
import json
import os
import random
import shutil
import sys
import tempfile
import time
from pathlib import Path

VERIF = Path(__file__).resolve().parent.parent
REPO = Path(os.environ.get("VERIF_REPO", "/repo")).resolve()
PY = os.environ.get("VERIF_PYTHON", "/venv/bin/python")
GUARD = "OPENAPI_PYTHON_CLIENT_VERIF"
NCPU = int(os.environ.get("VERIF_JOBS", str(min(16, os.cpu_count() or 4))))


def seed() -> int:
    try:
        return int(os.environ.get("VERIF_SEED", "0"))
    except ValueError:
        return 0


def tier(default: str = "quick") -> str:
    t = os.environ.get("VERIF_TIER", default)
    return t if t in ("quick", "thorough") else default


def rng(*parts) -> random.Random:
    return random.Random(":".join(str(p) for p in parts))


_SCRATCH: Path | None = None


def scratch() -> Path:
    """Per-run scratch directory outside /repo, /verif and /tmp; removed by cleanup()."""
    global _SCRATCH
    if _SCRATCH is None:
        base = os.environ.get("VERIF_SCRATCH") or "/var/tmp"
        Path(base).mkdir(parents=True, exist_ok=True)
        _SCRATCH = Path(tempfile.mkdtemp(prefix="vf-", dir=base))
    return _SCRATCH


def cleanup() -> None:
    global _SCRATCH
    if _SCRATCH is not None:
        shutil.rmtree(_SCRATCH, ignore_errors=True)
        _SCRATCH = None


def jhash(obj) -> str:
    return hashlib.sha1(json.dumps(obj, sort_keys=True, default=str).encode()).hexdigest()[:12]


def child_env(repo: Path | None = None, hashseed: str | None = "0", hooks_on_path: bool = True) -> dict:
    env = dict(os.environ)
    repo = repo or REPO
    pp = [str(VERIF)]
    if str(repo) != "/repo":
        pp.insert(0, str(repo))  # overrides the editable install (mutant self-tests)
    env["PYTHONPATH"] = os.pathsep.join(pp)
    env[GUARD] = "1"
    env["PYTHONDONTWRITEBYTECODE"] = "1"
    if hashseed is not None:
        env["PYTHONHASHSEED"] = str(hashseed)
    else:
        env.pop("PYTHONHASHSEED", None)
    path = env.get("PATH", "/usr/bin:/bin")
    parts = [p for p in path.split(os.pathsep) if p != "/venv/bin"]
    if hooks_on_path:
        parts.insert(0, "/venv/bin")
    env["PATH"] = os.pathsep.join(parts)
    env["VERIF_REPO"] = str(repo)
    env.setdefault("NO_COLOR", "1")
    return env


class Evidence:
    """Accumulates what a run observed and writes evidence/<id>.json (schema-valid)."""

    def __init__(self, prop: str, level: str = "exploration"):
        self.prop = prop
        self.level = level
        self.t0 = time.time()
        self.evaluations = 0
        self.signatures: set[str] = set()
        self.samples: list = []
        self.rule = ""
        self.extra: dict = {}
        self.assumptions: list[str] = []
        self.counters: dict[str, int] = {}
        self.violations = 0

    def count(self, key: str, n: int = 1) -> None:
        self.counters[key] = self.counters.get(key, 0) + n

    def seen(self, signature, n_eval: int = 1) -> None:
        self.evaluations += n_eval
        self.signatures.add(signature if isinstance(signature, str) else jhash(signature))

    def sample(self, obj, cap: int = 5) -> None:
        if len(self.samples) < cap:
            self.samples.append(obj)

    def write(self) -> Path:
        out = Path(os.environ.get("VERIF_EVIDENCE_DIR") or (VERIF / "evidence")) / f"{self.prop}.json"  # the override is used only by the seeded-change self-test
        out.parent.mkdir(exist_ok=True)
        cov = {
            "evaluations": self.evaluations,
            "distinct_nontrivial": len(self.signatures),
            "rule": self.rule,
            "samples": self.samples or ["<none>"],
            "monitor_events": dict(sorted(self.counters.items())),
        }
        cov.update(self.extra)
        doc = {
            "property_id": self.prop,
            "tier": tier(),
            "seed": seed(),
            "level": self.level,
            "coverage": cov,
            "assumptions": self.assumptions,
            "wall_s": round(time.time() - self.t0, 2),
            "violations": self.violations,
        }
        tmp = out.with_suffix(".json.tmp")
        tmp.write_text(json.dumps(doc, indent=1, default=str, ensure_ascii=False))
        tmp.replace(out)
        return out


def write_replay(prop: str, payload: dict) -> Path:
    d = VERIF / "replays" / prop
    d.mkdir(parents=True, exist_ok=True)
    p = d / f"{jhash(payload)}.json"
    p.write_text(json.dumps(payload, indent=1, default=str, ensure_ascii=False))
    return p


def load_known_findings() -> dict:
    p = VERIF / "known_findings.json"
    if not p.exists():
        return {"findings": [], "fixed": []}
    return json.loads(p.read_text())


class Verdict:
    """Collects violations (attributed to known findings or not) and produces the exit status.

    A *violation* is a dict with: key (mechanism key, finite vocabulary), what (human text), witness (replayable).
    Known findings are listed in known_findings.json by (property, key); a violation whose key is not listed
    is reported as VIOLATION.  Nothing is ever added to that file at run time.
    """

    def __init__(self, prop: str, ev: Evidence):
        self.prop = prop
        self.ev = ev
        kf = load_known_findings()
        self.known = {f["key"]: f for f in kf.get("findings", []) if f["property"] == prop}
        self.known_seen: dict[str, int] = {}
        self.new: dict[str, dict] = {}
        self.inconclusive: list[str] = []

    def violation(self, key: str, what: str, witness: dict) -> None:
        if key in self.known:
            self.known_seen[key] = self.known_seen.get(key, 0) + 1
            return
        if key not in self.new:
            self.new[key] = {"key": key, "what": what, "witness": witness, "count": 0}
        self.new[key]["count"] += 1

    def inconclusive_if(self, cond: bool, reason: str) -> None:
        if cond:
            self.inconclusive.append(reason)

    def finish(self) -> int:
        self.ev.extra["known_findings_seen"] = dict(sorted(self.known_seen.items()))
        self.ev.extra["new_violation_keys"] = sorted(self.new)
        self.ev.violations = len(self.new)
        for key, n in sorted(self.known_seen.items()):
            print(f"KNOWN-FINDING: property={self.prop} {key}: {self.known[key].get('what', '')} (seen {n}x)")
        code = 0
        for key, v in sorted(self.new.items()):
            rp = write_replay(self.prop, {"property": self.prop, "key": key, "what": v["what"], "witness": v["witness"]})
            print(f"VIOLATION property={self.prop} replay={rp}")
            print(f"  key={key} count={v['count']} what={v['what'][:400]}")
            code = 1
        if code == 0 and self.inconclusive:
            for r in self.inconclusive:
                print(f"INCONCLUSIVE property={self.prop} reason={r}")
            code = 2
        if os.environ.get("VERIF_SEEN_LOG"):
            # analysis aid (tools/prune_findings.py): which listed findings a run actually observed
            with open(os.environ["VERIF_SEEN_LOG"], "a") as fh:
                fh.write(json.dumps({"property": self.prop, "tier": tier(), "seed": seed(), "seen": self.known_seen}) + "\n")
        self.ev.extra["verdict"] = {0: "held_on_observed", 1: "violated", 2: "inconclusive"}[code]
        self.ev.write()
        print(
            f"[{self.prop}] tier={tier()} seed={seed()} evaluations={self.ev.evaluations} "
            f"distinct={len(self.ev.signatures)} known={sum(self.known_seen.values())} new={len(self.new)} "
            f"wall={time.time() - self.ev.t0:.1f}s -> exit {code}"
        )
        return code
