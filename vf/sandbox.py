"""Sandbox interpreter: imports *generated* packages and executes actions on them under monitors.

Run as:  /venv/bin/python -P -B -u /verif/vf/sandbox.py      (JSON lines on stdin/stdout)
It deliberately does not import the verification package or the generator.  Monitors installed here:
  M-IMPORT (audit `import` + frame inspection), M-EXEC (audit os.system/subprocess/socket/open with canary),
  M-HTTP (httpx.MockTransport capture), M-TYPE (runtime conformance to annotations), M-SIG (signatures).
"""
import sys, os, json, base64, importlib, inspect, typing, types, dis, ast, asyncio, datetime, uuid, enum, io, math, traceback, builtins

_proto = os.fdopen(os.dup(1), "w", buffering=1, encoding="utf-8")
os.dup2(os.open(os.devnull, os.O_WRONLY), 1)
sys.stdout = open(os.devnull, "w")

ALLOWED_TOP = set(sys.stdlib_module_names) | {"httpx", "attrs", "attr", "dateutil"}
STATE = {"pkg": None, "root": None, "foreign": [], "exec": [], "active": False}


def _audit(ev, args):
    try:
        if not STATE["active"]:
            return
        if ev == "import":
            root = STATE["root"]
            if not root:
                return
            f = sys._getframe(1)
            while f is not None and ("importlib" in f.f_code.co_filename and "_bootstrap" in f.f_code.co_filename or f.f_code.co_filename.startswith("<frozen importlib")):
                f = f.f_back
            if f is not None and f.f_code.co_filename.startswith(root):
                top = str(args[0]).split(".")[0]
                if top and top not in ALLOWED_TOP and top != STATE["pkg"]:
                    STATE["foreign"].append([f.f_code.co_filename[len(root):], str(args[0])])
            return
        if ev in ("os.system", "subprocess.Popen", "os.exec", "os.posix_spawn", "os.spawn", "socket.connect", "os.putenv", "os.fork", "ctypes.dlopen", "os.startfile"):
            STATE["exec"].append([ev, repr(args)[:300]])
            return
        if ev == "open":
            s = repr(args[0])
            if "CNRY" in s:
                STATE["exec"].append([ev, s[:300]])
    except Exception:
        pass


sys.addaudithook(_audit)

import httpx  # noqa: E402  (after the hook so nothing of ours is attributed to generated code)


# ------------------------------------------------------------------ value description
def b64(b):
    return base64.b64encode(b).decode()


def is_model(x):
    return hasattr(type(x), "__attrs_attrs__") and hasattr(type(x), "to_dict")


def desc(x, depth=0):
    if depth > 12:
        return {"t": "deep"}
    tx = type(x)
    if x is None:
        return {"t": "None"}
    if tx is bool:
        return {"t": "bool", "v": x}
    if tx is int:
        return {"t": "int", "v": x if abs(x) < 2**53 else str(x)}
    if tx is float:
        return {"t": "float", "v": x if math.isfinite(x) else repr(x)}
    if tx is str:
        return {"t": "str", "v": x}
    if tx is bytes:
        return {"t": "bytes", "v": b64(x)}
    if tx.__name__ == "Unset":
        return {"t": "Unset"}
    if isinstance(x, enum.Enum):
        return {"t": "enum", "cls": tx.__name__, "name": x.name, "v": desc(x.value, depth + 1)}
    if tx is datetime.datetime:
        return {"t": "datetime", "v": x.isoformat()}
    if tx is datetime.date:
        return {"t": "date", "v": x.isoformat()}
    if tx is uuid.UUID:
        return {"t": "UUID", "v": str(x)}
    if tx is list or tx is tuple:
        return {"t": tx.__name__, "v": [desc(i, depth + 1) for i in x]}
    if tx is dict:
        return {"t": "dict", "v": {str(k): desc(v, depth + 1) for k, v in x.items()}}
    if tx.__name__ == "File" and hasattr(x, "payload"):
        try:
            pos = x.payload.tell()
            data = x.payload.read()
            x.payload.seek(pos)
        except Exception:
            data = b""
        return {"t": "File", "payload": b64(data), "file_name": x.file_name, "mime_type": x.mime_type}
    if is_model(x):
        out = {}
        for a in tx.__attrs_attrs__:
            if a.name == "additional_properties":
                continue
            out[a.name] = desc(getattr(x, a.name), depth + 1)
        r = {"t": "model", "cls": tx.__name__, "v": out}
        if hasattr(x, "additional_properties"):
            r["addl"] = {str(k): desc(v, depth + 1) for k, v in x.additional_properties.items()}
        if depth == 0 or depth == 1:
            try:
                r["json"] = jsonable(x.to_dict())
            except BaseException as ex:
                r["json_exc"] = f"{type(ex).__name__}: {str(ex)[:100]}"
        return r
    if isinstance(x, str):
        return {"t": "strsub", "cls": tx.__name__, "v": str(x)}
    if isinstance(x, int):
        return {"t": "intsub", "cls": tx.__name__, "v": int(x)}
    return {"t": "other", "cls": tx.__qualname__, "r": repr(x)[:200]}


def plain_problems(x, path="$"):
    """Exact-type JSON plainness: anything not dict/list/str/int/float/bool/None is reported."""
    tx = type(x)
    if x is None or tx in (str, int, bool):
        return []
    if tx is float:
        return [] if math.isfinite(x) else [f"{path}: non-finite float"]
    if tx is list:
        out = []
        for i, v in enumerate(x):
            out += plain_problems(v, f"{path}[{i}]")
        return out
    if tx is dict:
        out = []
        for k, v in x.items():
            if type(k) is not str:
                out.append(f"{path}: non-str key {type(k).__name__}")
            out += plain_problems(v, f"{path}.{k}")
        return out
    return [f"{path}: {tx.__name__}"]


def jsonable(x):
    """Best-effort JSON image of a to_dict() result (non-plain values become tagged descriptions)."""
    tx = type(x)
    if x is None or tx in (str, int, bool):
        if tx is int and abs(x) >= 2**63:
            return {"$bigint": str(x)}
        return x
    if tx is float:
        return x if math.isfinite(x) else {"$nonfinite": repr(x)}
    if tx is list:
        return [jsonable(i) for i in x]
    if tx is dict:
        return {str(k): jsonable(v) for k, v in x.items()}
    return {"$nonplain": desc(x)}


# ------------------------------------------------------------------ value construction from descriptors
def models_mod():
    return importlib.import_module(STATE["pkg"] + ".models")


def types_mod():
    return importlib.import_module(STATE["pkg"] + ".types")


def build(v):
    if isinstance(v, dict) and "$t" in v:
        t = v["$t"]
        if t == "unset":
            return types_mod().UNSET
        if t == "date":
            return datetime.date.fromisoformat(v["v"])
        if t == "datetime":
            return datetime.datetime.fromisoformat(v["v"])
        if t == "uuid":
            return uuid.UUID(v["v"])
        if t == "enum":
            return getattr(models_mod(), v["cls"])(v["v"])
        if t == "model":
            return getattr(models_mod(), v["cls"]).from_dict(v["v"])
        if t == "init":
            return getattr(models_mod(), v["cls"])(**{k: build(x) for k, x in v.get("kwargs", {}).items()})
        if t == "file":
            return types_mod().File(payload=io.BytesIO(base64.b64decode(v["v"])), file_name=v.get("file_name"), mime_type=v.get("mime_type"))
        if t == "bytes":
            return base64.b64decode(v["v"])
        if t == "list":
            return [build(i) for i in v["v"]]
        if t == "json":
            return v["v"]
        raise ValueError("unknown descriptor " + t)
    if isinstance(v, list):
        return [build(i) for i in v]
    return v


# ------------------------------------------------------------------ M-TYPE
def hint_str(h):
    try:
        if h is type(None):
            return "None"
        if isinstance(h, type) and not typing.get_args(h):
            return h.__name__
        return str(h).replace("typing.", "")
    except Exception:
        return repr(h)


def conforms(x, h, ns):
    """Does runtime value x conform to type hint h?  Returns None if ok else a reason string."""
    if h is typing.Any or h is object:
        return None
    if isinstance(h, str):
        h = ns.get(h, None)
        if h is None:
            return "unresolvable forward reference"
    if isinstance(h, typing.ForwardRef):
        tgt = ns.get(h.__forward_arg__)
        if tgt is None:
            return f"unresolvable forward reference {h.__forward_arg__}"
        h = tgt
    if h is None or h is type(None):
        return None if x is None else f"{type(x).__name__} is not None"
    origin = typing.get_origin(h)
    args = typing.get_args(h)
    if origin is typing.Union or origin is getattr(types, "UnionType", None):
        for a in args:
            if conforms(x, a, ns) is None:
                return None
        return f"{type(x).__name__} value {repr(x)[:60]} matches no member of {hint_str(h)}"
    if origin is typing.Literal:
        for a in args:
            if type(a) is type(x) and a == x:
                return None
        return f"{repr(x)[:60]} not in {hint_str(h)}"
    if origin in (list, typing.List):
        if type(x) is not list:
            return f"{type(x).__name__} is not list"
        if args:
            for i in x:
                r = conforms(i, args[0], ns)
                if r:
                    return "item: " + r
        return None
    if origin in (dict, typing.Dict) or (origin is not None and getattr(origin, "__name__", "") in ("Mapping", "MutableMapping")):
        if not isinstance(x, dict):
            return f"{type(x).__name__} is not dict"
        if len(args) == 2:
            for k, v in x.items():
                r = conforms(v, args[1], ns)
                if r:
                    return f"value[{k!r}]: " + r
        return None
    if origin is tuple:
        return None if isinstance(x, tuple) else f"{type(x).__name__} is not tuple"
    if origin is not None:
        h = origin
    if isinstance(h, typing.TypeVar):
        return None
    if isinstance(h, type):
        if h is float:
            return None if type(x) in (float, int) and type(x) is not bool else f"{type(x).__name__} is not float"
        if h is int:
            return None if isinstance(x, int) and type(x) is not bool else f"{type(x).__name__} is not int"
        if h is datetime.date:
            return None if type(x) is datetime.date else f"{type(x).__name__} is not date"
        return None if isinstance(x, h) else f"{type(x).__name__} is not {h.__name__}"
    return None


def models_ns():
    ns = {}
    try:
        ns.update(vars(models_mod()))
    except Exception:
        pass
    try:
        ns.update({k: v for k, v in vars(types_mod()).items() if not k.startswith("_")})
    except Exception:
        pass
    return ns


def class_hints(cls):
    mod = sys.modules.get(cls.__module__)
    g = dict(vars(mod)) if mod else {}
    ns = models_ns()
    for k, v in ns.items():
        g.setdefault(k, v)
    return typing.get_type_hints(cls, globalns=g, localns=None), ns


def type_problems(obj, depth=0):
    out = []
    if not is_model(obj) or depth > 6:
        return out
    try:
        hints, ns = class_hints(type(obj))
    except Exception as ex:
        return [f"{type(obj).__name__}: get_type_hints failed: {type(ex).__name__}: {ex}"]
    for a in type(obj).__attrs_attrs__:
        v = getattr(obj, a.name)
        h = hints.get(a.name)
        if h is None:
            continue
        r = conforms(v, h, ns)
        if r:
            out.append(f"{type(obj).__name__}.{a.name}: {r} (annotation {hint_str(h)})")
        for sub in v if isinstance(v, list) else (list(v.values()) if isinstance(v, dict) else [v]):
            out += type_problems(sub, depth + 1)
    return out


# ------------------------------------------------------------------ actions
def exc_info(ex):
    tb = traceback.extract_tb(ex.__traceback__)
    root = STATE["root"] or "\0"
    where = None
    for fr in reversed(tb):
        if fr.filename.startswith(root):
            where = f"{fr.filename[len(root):]}:{fr.name}"
            break
    return {"type": type(ex).__name__, "msg": str(ex)[:300], "msg_full": str(ex)[:4000] if len(str(ex)) > 300 else None, "where": where, "last": f"{os.path.basename(tb[-1].filename)}:{tb[-1].name}" if tb else None,
            "args": [desc(a) for a in getattr(ex, "args", ())[:3]] if type(ex).__name__ == "UnexpectedStatus" else None,
            "status_code": getattr(ex, "status_code", None) if type(ex).__name__ == "UnexpectedStatus" else None,
            "content": b64(getattr(ex, "content", b"")) if type(ex).__name__ == "UnexpectedStatus" and isinstance(getattr(ex, "content", None), bytes) else None}


def act_import_all(a):
    pkg = STATE["pkg"]
    root = os.path.join(STATE["root"], pkg)
    mods, errors, unresolved, hint_errors = [], [], [], []
    syntax = []
    for dp, dn, fn in os.walk(root):
        dn.sort()
        for f in sorted(fn):
            if not f.endswith(".py"):
                continue
            rel = os.path.relpath(os.path.join(dp, f), STATE["root"])
            name = rel[:-3].replace(os.sep, ".")
            if name.endswith(".__init__"):
                name = name[: -len(".__init__")]
            mods.append((name, os.path.join(dp, f)))
    for name, path in mods:
        try:
            src = open(path, encoding="utf-8").read()
            tree = ast.parse(src, path)
        except SyntaxError as ex:
            syntax.append({"module": name, "msg": f"{ex.msg} (line {ex.lineno})", "text": (ex.text or "").strip()[:200]})
            continue
        except Exception as ex:
            syntax.append({"module": name, "msg": f"{type(ex).__name__}: {ex}"})
            continue
        try:
            m = importlib.import_module(name)
        except BaseException as ex:
            errors.append({"module": name, "exc": exc_info(ex)})
            continue
        # every ImportFrom in any scope must resolve (TYPE_CHECKING blocks, in-function lazy imports)
        pkgname = m.__package__ if hasattr(m, "__package__") else name.rpartition(".")[0]
        for node in ast.walk(tree):
            if isinstance(node, ast.ImportFrom):
                try:
                    base = importlib.import_module("." * node.level + (node.module or ""), pkgname) if node.level else importlib.import_module(node.module)
                    for al in node.names:
                        if al.name == "*":
                            continue
                        if not hasattr(base, al.name):
                            try:
                                importlib.import_module(base.__name__ + "." + al.name)
                            except Exception:
                                unresolved.append({"module": name, "line": node.lineno, "what": f"from {'.' * node.level}{node.module or ''} import {al.name}"})
                except BaseException as ex:
                    unresolved.append({"module": name, "line": node.lineno, "names": [al.name for al in node.names], "what": f"from {'.' * node.level}{node.module or ''} import {', '.join(al.name for al in node.names)}: {type(ex).__name__}: {str(ex)[:100]}"})
        # every global name loaded by any function body must exist in module globals or builtins
        g = vars(m)

        def walk_code(co, cls_body=False):
            for ins in dis.get_instructions(co):
                if ins.opname == "LOAD_GLOBAL" and ins.argval not in g and not hasattr(builtins, ins.argval):
                    unresolved.append({"module": name, "line": ins.positions.lineno if ins.positions else None, "what": f"global name {ins.argval} in {co.co_name}"})
            for c in co.co_consts:
                if isinstance(c, types.CodeType):
                    walk_code(c)

        try:
            walk_code(compile(tree, path, "exec"))
        except Exception as ex:
            syntax.append({"module": name, "msg": f"compile: {type(ex).__name__}: {ex}"})
        # annotations must evaluate
        for k, v in list(g.items()):
            if getattr(v, "__module__", None) != name:
                continue
            try:
                if inspect.isclass(v) and hasattr(v, "__attrs_attrs__"):
                    class_hints(v)
                    for meth in ("to_dict", "from_dict", "to_multipart"):
                        if hasattr(v, meth):
                            fn = getattr(v, meth)
                            fn = getattr(fn, "__func__", fn)
                            gg = dict(g)
                            for kk, vv in models_ns().items():
                                gg.setdefault(kk, vv)
                            typing.get_type_hints(fn, globalns=gg)
                elif inspect.isfunction(v):
                    typing.get_type_hints(v)
            except BaseException as ex:
                hint_errors.append({"module": name, "obj": k, "exc": f"{type(ex).__name__}: {str(ex)[:200]}"})
    return {"modules": len(mods), "syntax": syntax, "errors": errors, "unresolved": unresolved, "hint_errors": hint_errors}


def field_info(cls):
    hints, ns = class_hints(cls)
    out = []
    import attr as _attr
    for a in cls.__attrs_attrs__:
        h = hints.get(a.name)
        has_default = a.default is not _attr.NOTHING
        d = None
        if has_default:
            dv = a.default
            if isinstance(dv, _attr.Factory):
                d = {"t": "factory"}
            else:
                d = desc(dv)
        members = []
        if h is not None:
            if typing.get_origin(h) is typing.Union:
                members = [hint_str(x) for x in typing.get_args(h)]
            else:
                members = [hint_str(h)]
        dprob = None
        if has_default and h is not None and not isinstance(a.default, _attr.Factory):
            dprob = conforms(a.default, h, ns)
        out.append({"name": a.name, "init": a.init, "has_default": has_default, "default": d, "default_problem": dprob, "annotation": hint_str(h) if h is not None else None,
                    "admits_none": h is not None and conforms(None, h, ns) is None and h is not typing.Any,
                    "admits_unset": h is not None and h is not typing.Any and conforms(types_mod().UNSET, h, ns) is None,
                    "members": members, "kw_only": a.kw_only})
    return out


def act_model_info(a):
    cls = getattr(models_mod(), a["cls"])
    return {"fields": field_info(cls), "module": cls.__module__}


def attr_states(o):
    return {a.name: desc(getattr(o, a.name)) for a in type(o).__attrs_attrs__ if a.name != "additional_properties"}


def act_roundtrip(a):
    cls = getattr(models_mod(), a["cls"])
    out = {}
    try:
        o = cls.from_dict(a["value"])
    except BaseException as ex:
        return {"stage": "from_dict", "exc": exc_info(ex)}
    out["attrs"] = attr_states(o)
    if hasattr(o, "additional_properties"):
        out["addl"] = {str(k): desc(v) for k, v in o.additional_properties.items()}
    out["type_problems"] = type_problems(o)
    try:
        e = o.to_dict()
    except BaseException as ex:
        out.update({"stage": "to_dict", "exc": exc_info(ex)})
        return out
    out["nonplain"] = plain_problems(e)
    out["e"] = jsonable(e)
    if hasattr(o, "additional_keys"):
        # the mapping interface over undeclared properties must show exactly what to_dict() encodes for them
        try:
            keys = o.additional_keys
            keys = list(keys() if callable(keys) else keys)
            prob = None
            if sorted(map(str, keys)) != sorted(map(str, o.additional_properties)):
                prob = f"additional_keys() {sorted(map(str, keys))[:5]} != additional_properties keys {sorted(map(str, o.additional_properties))[:5]}"
            for k in keys:
                if prob:
                    break
                if k not in o:
                    prob = f"{k!r} in additional_keys() but `in` says no"
                    break
                v = o[k]
                if v is not o.additional_properties[k]:
                    prob = f"o[{k!r}] is not additional_properties[{k!r}]"
                    break
                del o[k]
                if k in o:
                    prob = f"{k!r} still present after del"
                    break
                o[k] = v
            if not prob and keys:
                e3 = o.to_dict()
                if json.dumps(jsonable(e3), sort_keys=True) != json.dumps(out["e"], sort_keys=True):
                    prob = "to_dict() differs after deleting and re-adding every additional property through the mapping interface"
            out["addl_iface"] = {"keys": len(keys), "problem": prob}
        except BaseException as ex:
            out["addl_iface"] = {"keys": -1, "problem": f"{type(ex).__name__}: {str(ex)[:150]}"}
    try:
        o2 = cls.from_dict(e)
        out["eq2"] = bool(o2 == o)
        if not out["eq2"]:
            out["attrs2"] = attr_states(o2)
    except BaseException as ex:
        out.update({"stage": "from_dict2", "exc": exc_info(ex)})
    return out


def act_construct(a):
    cls = getattr(models_mod(), a["cls"])
    try:
        kwargs = {k: build(v) for k, v in a.get("kwargs", {}).items()}
        o = cls(**kwargs)
    except BaseException as ex:
        return {"stage": "init", "exc": exc_info(ex)}
    out = {"attrs": attr_states(o)}
    try:
        e = o.to_dict()
        out["e"] = jsonable(e)
        out["nonplain"] = plain_problems(e)
    except BaseException as ex:
        out.update({"stage": "to_dict", "exc": exc_info(ex)})
    return out


def act_enum_info(a):
    obj = getattr(models_mod(), a["cls"])
    if inspect.isclass(obj) and issubclass(obj, enum.Enum):
        return {"kind": "enum", "members": [[m.name, desc(m.value)] for m in obj], "bases": [b.__name__ for b in obj.__mro__[1:3]]}
    if typing.get_origin(obj) is typing.Literal:
        return {"kind": "literal", "members": [[None, desc(v)] for v in typing.get_args(obj)]}
    return {"kind": "other", "repr": repr(obj)[:200]}


def sig_info(fn):
    sig = inspect.signature(fn)
    try:
        hints = typing.get_type_hints(fn)
    except Exception:
        hints = {}
    ns = models_ns()
    ps = []
    for p in sig.parameters.values():
        h = hints.get(p.name, p.annotation if p.annotation is not inspect._empty else None)
        dprob = None
        if p.default is not inspect._empty and h is not None and not isinstance(h, str):
            try:
                dprob = conforms(p.default, h, ns)
            except Exception as ex:
                dprob = f"conformance check failed: {type(ex).__name__}"
        ps.append({"name": p.name, "kind": p.kind.name, "has_default": p.default is not inspect._empty, "default_problem": dprob,
                   "default": desc(p.default) if p.default is not inspect._empty else None,
                   "annotation": hint_str(h) if h is not None else None,
                   "admits_none": h is not None and not isinstance(h, str) and h is not typing.Any and conforms(None, h, ns) is None,
                   "admits_unset": h is not None and not isinstance(h, str) and h is not typing.Any and conforms(types_mod().UNSET, h, ns) is None,
                   "members": [hint_str(x) for x in typing.get_args(h)] if typing.get_origin(h) is typing.Union else ([hint_str(h)] if h is not None else [])})
    r = hints.get("return")
    return {"params": ps, "return": hint_str(r) if r is not None else None}


def act_endpoint_info(a):
    m = importlib.import_module(STATE["pkg"] + "." + a["module"])
    out = {}
    for fn in ("_get_kwargs", "sync_detailed", "sync", "asyncio_detailed", "asyncio"):
        if hasattr(m, fn):
            out[fn] = sig_info(getattr(m, fn))
    return out


def capture_request(request):
    content = request.read() if hasattr(request, "read") else request.content
    return {"method": request.method, "url": str(request.url), "raw_path": request.url.raw_path.decode("ascii", "replace"),
            "path": request.url.path, "query": [[k, v] for k, v in request.url.params.multi_items()],
            "headers": [[k, v] for k, v in request.headers.multi_items()], "content": b64(content)}


def make_client(spec, captured, is_async):
    cm = importlib.import_module(STATE["pkg"] + ".client")
    rs0 = spec.get("response", {"status": 200})
    def mk_response():
        rs = STATE.get("response_spec") or rs0
        return httpx.Response(rs.get("status", 200), headers=[tuple(h) for h in rs.get("headers", [])], content=base64.b64decode(rs.get("content", "")))
    def handler(request):
        captured.append(capture_request(request))
        return mk_response()
    async def ahandler(request):
        await request.aread()
        captured.append(capture_request(request))
        return mk_response()
    cs = spec.get("client", {})
    kw = {"base_url": cs.get("base_url", "http://verif.test/base"), "httpx_args": {"transport": httpx.MockTransport(ahandler if is_async else handler)}}
    if "raise" in cs:
        kw["raise_on_unexpected_status"] = cs["raise"]
    for k in ("cookies", "headers"):
        if k in cs:
            kw[k] = cs[k]
    if cs.get("auth"):
        for k in ("token", "prefix", "auth_header_name"):
            if k in cs:
                kw[k] = cs[k]
        c = cm.AuthenticatedClient(**kw)
    else:
        c = cm.Client(**kw)
    for kind, arg in cs.get("derive", []):
        if kind == "touch":
            # the underlying httpx client already exists when the derived client is made
            (c.get_async_httpx_client if is_async else c.get_httpx_client)()
        elif kind == "set_client":
            # the caller's own httpx client (documented to replace whatever the generated client would have built)
            if is_async:
                c = c.set_async_httpx_client(httpx.AsyncClient(base_url=kw["base_url"], headers=arg, transport=httpx.MockTransport(ahandler)))
            else:
                c = c.set_httpx_client(httpx.Client(base_url=kw["base_url"], headers=arg, transport=httpx.MockTransport(handler)))
        elif kind == "with_timeout":
            c = c.with_timeout(httpx.Timeout(arg))
        else:
            c = getattr(c, kind)(arg)
    return c


def response_desc(r):
    if type(r).__name__ == "Response" and hasattr(r, "parsed"):
        return {"t": "Response", "status_code": desc(r.status_code) if not isinstance(r.status_code, int) else {"t": type(r.status_code).__name__, "v": int(r.status_code)},
                "content": b64(r.content) if isinstance(r.content, bytes) else None, "headers": [[k, v] for k, v in r.headers.items()] if hasattr(r.headers, "items") else None,
                "parsed": desc(r.parsed)}
    return desc(r)


def _call_outcome(fn, r, captured_slice):
    res = {"result": response_desc(r)}
    parsed = r.parsed if hasattr(r, "parsed") and type(r).__name__ == "Response" else r
    tp = []
    try:
        hints = typing.get_type_hints(fn)
        rh = hints.get("return")
        if rh is not None:
            c = conforms(r, rh, models_ns()) if not (type(r).__name__ == "Response") else None
            if type(r).__name__ == "Response":
                ra = typing.get_args(rh)
                if ra:
                    c = conforms(r.parsed, typing.Optional[ra[0]], models_ns())
            if c:
                tp.append(f"return: {c} (annotation {hint_str(rh)})")
    except Exception as ex:
        tp.append(f"get_type_hints: {type(ex).__name__}: {ex}")
    for sub in parsed if isinstance(parsed, list) else [parsed]:
        tp += type_problems(sub)
    res["type_problems"] = tp
    return res


def act_call(a):
    """One call per variant on a fresh client; `followups` (further calls, possibly of other operations) are made on the SAME client
    right after it, so that state a call leaves on the client (cookies, headers, the cached httpx client) meets the next request."""
    m = importlib.import_module(STATE["pkg"] + "." + a["module"])
    out = {}
    for variant in a.get("variants", ["sync_detailed"]):
        if not hasattr(m, variant):
            out[variant] = {"missing": True}
            continue
        fn = getattr(m, variant)
        captured = []
        res = {}
        steps = [(fn, a)]
        for fu in a.get("followups") or []:
            try:
                fm = importlib.import_module(STATE["pkg"] + "." + fu["module"])
                steps.append((getattr(fm, variant, None), fu))
            except BaseException as ex:
                steps.append((None, fu))
        outcomes = []
        try:
            is_async = variant.startswith("asyncio")
            client = make_client(a, captured, is_async)
            use_ctx = bool((a.get("client") or {}).get("context"))

            def one_sync(c_):
                for f_, spec in steps:
                    n0 = len(captured)
                    if f_ is None:
                        outcomes.append({"missing": True, "requests": []})
                        continue
                    STATE["response_spec"] = spec.get("response", {"status": 200})
                    try:
                        kwargs = {k: build(v) for k, v in spec.get("args", {}).items()}
                        pos = [build(v) for v in spec.get("pos", [])]
                        r_ = f_(*pos, client=c_, **kwargs)
                        o_ = _call_outcome(f_, r_, None)
                    except BaseException as ex:
                        o_ = {"exc": exc_info(ex)}
                    o_["requests"] = captured[n0:]
                    outcomes.append(o_)

            async def one_async(c_):
                for f_, spec in steps:
                    n0 = len(captured)
                    if f_ is None:
                        outcomes.append({"missing": True, "requests": []})
                        continue
                    STATE["response_spec"] = spec.get("response", {"status": 200})
                    try:
                        kwargs = {k: build(v) for k, v in spec.get("args", {}).items()}
                        pos = [build(v) for v in spec.get("pos", [])]
                        r_ = await f_(*pos, client=c_, **kwargs)
                        o_ = _call_outcome(f_, r_, None)
                    except BaseException as ex:
                        o_ = {"exc": exc_info(ex)}
                    o_["requests"] = captured[n0:]
                    outcomes.append(o_)

            if is_async:
                async def run():
                    if use_ctx:
                        async with client as c_:
                            return await one_async(c_)
                    try:
                        return await one_async(client)
                    finally:
                        try:
                            await client.get_async_httpx_client().aclose()
                        except Exception:
                            pass
                asyncio.run(run())
            elif use_ctx:
                with client as c_:
                    one_sync(c_)
            else:
                one_sync(client)
        except BaseException as ex:
            if not outcomes:
                outcomes.append({"exc": exc_info(ex), "requests": captured})
        finally:
            STATE["response_spec"] = None
        res = outcomes[0] if outcomes else {"requests": captured}
        if len(steps) > 1:
            res["followups"] = outcomes[1:]
        out[variant] = res
    return out


def act_get_kwargs(a):
    m = importlib.import_module(STATE["pkg"] + "." + a["module"])
    try:
        kwargs = {k: build(v) for k, v in a.get("args", {}).items()}
        pos = [build(v) for v in a.get("pos", [])]
        r = m._get_kwargs(*pos, **kwargs)
        return {"ok": True, "keys": sorted(r.keys())}
    except BaseException as ex:
        return {"exc": exc_info(ex)}


def act_getattr(a):
    """Read a module-level attribute (e.g. __all__) of a package module."""
    m = importlib.import_module(STATE["pkg"] + ("." + a["module"] if a.get("module") else ""))
    return {"value": desc(getattr(m, a["name"], None)), "has": hasattr(m, a["name"])}


# ------------------------------------------------------------------ M-GENCOV (which generated lines the actions executed)
GCOV = {"on": False, "lines": set()}
_GTOOL = 4
_KEEP = set(__import__("keyword").kwlist) | {"isinstance", "list", "dict", "str", "int", "float", "bool", "bytes", "tuple", "None", "True", "False", "cast", "Unset", "UNSET", "File", "isoparse", "Union", "Any",
                                                 "self", "cls", "d", "field_dict", "append", "items", "pop", "get", "update", "to_dict", "from_dict", "to_tuple", "to_multipart", "isoformat", "date", "datetime", "UUID", "json",
                                                 "response", "status_code", "content", "text", "BytesIO", "client", "kwargs", "_kwargs", "headers", "params", "cookies", "body", "files", "data", "TypeError", "ValueError",
                                                 "additional_properties", "Literal", "HTTPStatus", "errors", "UnexpectedStatus", "Response", "parsed", "raise_on_unexpected_status", "encode", "dumps", "Optional"}


def _gcov_setup():
    mon = sys.monitoring
    try:
        mon.use_tool_id(_GTOOL, "vf-gencov")
    except ValueError:
        pass

    def on_start(code, off):
        root = STATE["root"]
        if root and code.co_filename.startswith(root):
            try:
                mon.set_local_events(_GTOOL, code, mon.events.LINE)
            except Exception:
                pass
        return mon.DISABLE

    def on_line(code, line):
        GCOV["lines"].add((code.co_filename, line))
        return mon.DISABLE

    mon.register_callback(_GTOOL, mon.events.PY_START, on_start)
    mon.register_callback(_GTOOL, mon.events.LINE, on_line)
    mon.set_events(_GTOOL, mon.events.PY_START)
    GCOV["on"] = True


def _shape(line):
    """Identifier-free spelling of a generated source line: names outside a fixed template vocabulary -> N, strings -> S, numbers -> 0."""
    import tokenize
    out = []
    try:
        for tok in tokenize.generate_tokens(io.StringIO(line.strip() + "\n").readline):
            if tok.type == tokenize.NAME:
                out.append(tok.string if tok.string in _KEEP else "N")
            elif tok.type == tokenize.STRING:
                out.append("S")
            elif tok.type == tokenize.NUMBER:
                out.append("0")
            elif tok.type == tokenize.OP:
                out.append(tok.string)
    except Exception:
        return None
    sh = " ".join(out)
    while "N . N" in sh:
        sh = sh.replace("N . N", "N")
    return sh[:160]


def gencov_report():
    """Per (artefact kind, function): statement lines of generated function bodies executed / present, and the line
    shapes executed / not executed (so that a run can tell which generated code forms it never drove)."""
    root = STATE["root"]
    by_file = {}
    for f, ln in GCOV["lines"]:
        if f.startswith(root):
            by_file.setdefault(f, set()).add(ln)
    funcs, hit_shapes, miss_shapes = {}, {}, {}
    pkgroot = os.path.join(root, STATE["pkg"])
    for dp, dn, fns in os.walk(pkgroot):
        for fn in fns:
            if not fn.endswith(".py"):
                continue
            full = os.path.join(dp, fn)
            rel = os.path.relpath(full, pkgroot)
            kind = "model" if rel.startswith("models" + os.sep) else "endpoint" if rel.startswith("api" + os.sep) else rel[:-3]
            if fn == "__init__.py":
                continue
            try:
                src = open(full, encoding="utf-8").read()
                tree = ast.parse(src)
            except Exception:
                continue
            lines = src.splitlines()
            hits = by_file.get(full, set())
            for node in ast.walk(tree):
                if not isinstance(node, (ast.FunctionDef, ast.AsyncFunctionDef)):
                    continue
                stm = set()
                for n in ast.walk(node):
                    if isinstance(n, ast.stmt) and n is not node and not isinstance(n, (ast.Import, ast.ImportFrom, ast.FunctionDef, ast.AsyncFunctionDef)):
                        if isinstance(n, ast.Expr) and isinstance(n.value, ast.Constant) and isinstance(n.value.value, str):
                            continue
                        if isinstance(n, ast.AnnAssign) and n.value is None:
                            continue  # a bare annotation executes nothing
                        stm.add(n.lineno)
                if not stm:
                    continue
                fname = "check_*" if node.name.startswith("check_") else "_parse_response_*" if node.name.startswith("_parse_response_") else "_parse_*" if node.name.startswith("_parse_") and node.name != "_parse_response" else node.name
                key = f"{kind}.{fname}" if kind in ("model", "endpoint") or node.name in ("to_tuple", "with_headers", "with_cookies", "with_timeout", "get_httpx_client", "get_async_httpx_client", "__enter__", "__aenter__") else f"{kind}.*"
                c = funcs.setdefault(key, [0, 0, 0])
                h = stm & hits
                c[0] += len(h)
                c[1] += len(stm)
                c[2] += 1 if h else 0
                if kind in ("model", "endpoint"):
                    for ln in stm:
                        sh = _shape(lines[ln - 1]) if ln - 1 < len(lines) else None
                        if sh:
                            tgt = hit_shapes if ln in hits else miss_shapes
                            k2 = f"{kind}.{fname}: {sh}"
                            tgt[k2] = tgt.get(k2, 0) + 1
    return {"funcs": funcs, "hit_shapes": hit_shapes, "miss_shapes": miss_shapes}


ACTIONS = {"import_all": act_import_all, "model_info": act_model_info, "roundtrip": act_roundtrip, "construct": act_construct,
           "enum_info": act_enum_info, "endpoint_info": act_endpoint_info, "call": act_call, "get_kwargs": act_get_kwargs, "getattr": act_getattr}


def handle(cmd):
    if cmd.get("op") == "ping":
        return {"pong": True}
    root = cmd["root"].rstrip("/") + "/"
    if root not in sys.path:
        sys.path.insert(0, root)
    STATE.update(pkg=cmd["pkg"], root=root, foreign=[], exec=[], active=True)
    if cmd.get("gencov"):
        try:
            if not GCOV["on"]:
                _gcov_setup()
            GCOV["lines"] = set()
            sys.monitoring.restart_events()
        except Exception:
            pass
    results = []
    try:
        for a in cmd["actions"]:
            try:
                r = ACTIONS[a["a"]](a)
            except BaseException as ex:
                r = {"action_exc": exc_info(ex), "tb": traceback.format_exc()[-800:]}
            if "tag" in a:
                r["tag"] = a["tag"]
            results.append(r)
    finally:
        STATE["active"] = False
    out = {"results": results, "foreign_imports": STATE["foreign"], "exec_events": STATE["exec"]}
    if cmd.get("gencov") and GCOV["on"]:
        try:
            out["gencov"] = gencov_report()
        except Exception as ex:
            out["gencov"] = {"error": f"{type(ex).__name__}: {ex}"}
    if cmd.get("forget", True):
        for k in [k for k in sys.modules if k == cmd["pkg"] or k.startswith(cmd["pkg"] + ".")]:
            del sys.modules[k]
        try:
            sys.path.remove(root)
        except ValueError:
            pass
        importlib.invalidate_caches()
    return out


def main():
    for line in sys.stdin:
        line = line.strip()
        if not line:
            continue
        try:
            out = handle(json.loads(line))
        except BaseException as ex:
            out = {"sandbox_exc": f"{type(ex).__name__}: {ex}", "tb": traceback.format_exc()[-1500:]}
        _proto.write(json.dumps(out, default=str) + "\n")
        _proto.flush()


if __name__ == "__main__":
    main()
