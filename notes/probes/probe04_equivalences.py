import sys, json, shutil, io, contextlib, hashlib, copy, random
from pathlib import Path
import openapi_python_client as opc
from openapi_python_client.config import Config, ConfigFile, MetaType
def gen(doc, name="o", meta=MetaType.NONE, **cf):
    p=Path("d.json"); p.write_text(json.dumps(doc))
    shutil.rmtree(name, ignore_errors=True)
    cfg = Config.from_sources(ConfigFile(post_hooks=[], **cf), meta, p, "utf-8", False, Path(name))
    with contextlib.redirect_stdout(io.StringIO()):
        errs = opc.generate(config=cfg)
    tree={str(f.relative_to(name)):f.read_bytes() for f in sorted(Path(name).rglob("*")) if f.is_file()}
    return [ (e.level.name, e.header, (e.detail or "")[:100]) for e in errs], tree
def cmp(t1,t2,label):
    diff=[k for k in set(t1)|set(t2) if t1.get(k)!=t2.get(k)]
    print(label, "IDENTICAL" if not diff else ("DIFF "+str(sorted(diff)[:6])))
    return diff
def doc(schemas, paths=None, ver="3.0.3", comps=None):
    c={"schemas":schemas}; c.update(comps or {})
    return {"openapi":ver,"info":{"title":"t","version":"1"},"paths":paths or {}, "components":c}
# C17 nullable
a=doc({"M":{"type":"object","properties":{"s":{"type":"string","nullable":True,"description":"d"},"r":{"nullable":True,"allOf":[{"$ref":"#/components/schemas/N"}]},"i":{"type":"integer","nullable":True,"default":3}}},"N":{"type":"object","properties":{"x":{"type":"string"}}}})
b=doc({"M":{"type":"object","properties":{"s":{"type":["string","null"],"description":"d"},"r":{"oneOf":[{"type":"null"},{"allOf":[{"$ref":"#/components/schemas/N"}]}]},"i":{"type":["integer","null"],"default":3}}},"N":{"type":"object","properties":{"x":{"type":"string"}}}}, ver="3.1.0")
c=doc({"M":{"type":"object","properties":{"s":{"oneOf":[{"type":"string"},{"type":"null"}],"description":"d"},"r":{"oneOf":[{"type":"null"},{"$ref":"#/components/schemas/N"}]},"i":{"oneOf":[{"type":"integer"},{"type":"null"}],"default":3}}},"N":{"type":"object","properties":{"x":{"type":"string"}}}}, ver="3.1.0")
ea,ta=gen(a); eb,tb=gen(b); ec,tc=gen(c)
print(ea,eb,ec)
cmp(ta,tb,"nullable vs typelist"); d=cmp(ta,tc,"nullable vs oneOf-null")
if d:
    import difflib
    for k in d[:1]:
        print("\n".join(list(difflib.unified_diff(ta[k].decode().splitlines(), tc[k].decode().splitlines(), lineterm=""))[:40]))
# enum with null vs union
a=doc({"M":{"type":"object","properties":{"e":{"type":"string","enum":["a","b",None]}}}})
b=doc({"M":{"type":"object","properties":{"e":{"oneOf":[{"type":"null"},{"type":"string","enum":["a","b"]}]}}}}, ver="3.1.0")
ea,ta=gen(a); eb,tb=gen(b); print(ea,eb); d=cmp(ta,tb,"enum-null vs union")
if d:
    import difflib
    for k in d[:2]:
        print(k); print("\n".join(list(difflib.unified_diff(ta.get(k,b"").decode().splitlines(), tb.get(k,b"").decode().splitlines(), lineterm=""))[:30]))
# single wrapper vs bare ref
a=doc({"M":{"type":"object","properties":{"r":{"allOf":[{"$ref":"#/components/schemas/N"}]},"q":{"oneOf":[{"$ref":"#/components/schemas/N"}]},"z":{"anyOf":[{"$ref":"#/components/schemas/E"}]}}},"N":{"type":"object","properties":{"x":{"type":"string"}}},"E":{"type":"string","enum":["p"]}})
b=doc({"M":{"type":"object","properties":{"r":{"$ref":"#/components/schemas/N"},"q":{"$ref":"#/components/schemas/N"},"z":{"$ref":"#/components/schemas/E"}}},"N":{"type":"object","properties":{"x":{"type":"string"}}},"E":{"type":"string","enum":["p"]}})
ea,ta=gen(a); eb,tb=gen(b); print(ea,eb); cmp(ta,tb,"wrapper vs bare ref")
# C20 param/response/body ref vs inline
P={"name":"lim-it","in":"query","required":True,"description":"pd","schema":{"type":"integer","default":5}}
R={"description":"ok","content":{"application/json":{"schema":{"$ref":"#/components/schemas/N"}}}}
B={"required":True,"content":{"application/json":{"schema":{"$ref":"#/components/schemas/N"}}}}
S={"N":{"type":"object","properties":{"x":{"type":"string"}}}}
a=doc(S,{"/a":{"post":{"operationId":"o","parameters":[P],"requestBody":B,"responses":{"200":R}}}})
b=doc(S,{"/a":{"post":{"operationId":"o","parameters":[{"$ref":"#/components/parameters/P"}],"requestBody":{"$ref":"#/components/requestBodies/B"},"responses":{"200":{"$ref":"#/components/responses/R"}}}}},comps={"parameters":{"P":P},"requestBodies":{"B":B},"responses":{"R":R}})
ea,ta=gen(a); eb,tb=gen(b); print(ea,eb); cmp(ta,tb,"inline vs ref components")
# C12 permutation on baseline
base=json.loads(Path("/repo/end_to_end_tests/baseline_openapi_3.0.json").read_text())
e0,t0=gen(base)
print("baseline diags", len(e0))
rnd=random.Random(1)
for i in range(3):
    d2=copy.deepcopy(base)
    ks=list(d2["components"]["schemas"].items()); rnd.shuffle(ks); d2["components"]["schemas"]=dict(ks)
    ks=list(d2["paths"].items()); rnd.shuffle(ks); d2["paths"]=dict(ks)
    e2,t2=gen(d2); print(len(e2)); cmp(t0,t2,"perm %d"%i)
print(e0)
import difflib
k='models/model_with_circular_ref_in_additional_properties_a.py'
for i in range(6):
    d2=copy.deepcopy(base)
    ks=list(d2["components"]["schemas"].items()); rnd.shuffle(ks); d2["components"]["schemas"]=dict(ks)
    e2,t2=gen(d2)
    if t2[k]!=t0[k]:
        print("\n".join(list(difflib.unified_diff(t0[k].decode().splitlines(), t2[k].decode().splitlines(), lineterm=""))[:60])); break
