import sys, json, shutil, io, contextlib, ast, copy, os
from pathlib import Path
events=[]
def hook(ev,args):
    if ev in ("open","os.mkdir","os.remove","os.rename","os.rmdir","shutil.rmtree","os.chmod","os.symlink","subprocess.Popen","os.unlink","os.replace","shutil.copyfile","os.truncate","os.utime"):
        if ev=="open":
            p,mode,flags=args
            if not (isinstance(flags,int) and flags & (os.O_WRONLY|os.O_RDWR|os.O_CREAT|os.O_APPEND|os.O_TRUNC)): return
        events.append((ev,str(args[0])[:80]))
sys.addaudithook(hook)
import openapi_python_client as opc
from openapi_python_client.config import Config, ConfigFile, MetaType
def gen(doc, name="o", meta=MetaType.NONE, overwrite=False, **cf):
    p=Path("d.json"); p.write_text(json.dumps(doc))
    if not overwrite: shutil.rmtree(name, ignore_errors=True)
    cfg = Config.from_sources(ConfigFile(post_hooks=[], **cf), meta, p, "utf-8", overwrite, Path(name))
    with contextlib.redirect_stdout(io.StringIO()):
        errs = opc.generate(config=cfg)
    tree={str(f.relative_to(name)):f.read_bytes() for f in sorted(Path(name).rglob("*")) if f.is_file()}
    return [(e.level.name,e.header[:60],(e.detail or "")[:80]) for e in errs], tree
def cmp(t1,t2,label,ignore=()):
    diff=sorted(k for k in set(t1)|set(t2) if t1.get(k)!=t2.get(k) and k not in ignore)
    print(label, "IDENTICAL" if not diff else ("DIFF "+str(diff[:8])))
def doc(schemas, paths=None):
    return {"openapi":"3.0.3","info":{"title":"t","version":"1"},"paths":paths or {}, "components":{"schemas":schemas}}
ok=lambda ref: {"200":{"description":"ok","content":{"application/json":{"schema":{"$ref":"#/components/schemas/"+ref}}}}}
S={"A":{"type":"object","properties":{"b":{"$ref":"#/components/schemas/B"},"e":{"type":"string","enum":["x","y"]}}},
   "B":{"type":"object","properties":{"a":{"$ref":"#/components/schemas/A"},"n":{"type":"integer"}}},
   "C":{"allOf":[{"$ref":"#/components/schemas/B"},{"type":"object","properties":{"z":{"type":"string","format":"date"}}}]}}
P={"/a":{"get":{"operationId":"getA","tags":["t1","t2"],"responses":ok("A")}},"/c":{"get":{"operationId":"getC","responses":ok("C")}}}
e0,t0=gen(doc(S,P)); print("D diags",e0)
# C08: add bad schema + dependants + op using it
S2=copy.deepcopy(S); S2["Bad"]={"type":"array"}; S2["Dep1"]={"type":"object","properties":{"x":{"$ref":"#/components/schemas/Bad"}}}; S2["Dep2"]={"type":"object","properties":{"y":{"$ref":"#/components/schemas/Dep1"}}}
P2=copy.deepcopy(P); P2["/bad"]={"get":{"operationId":"getBad","responses":ok("Dep2")}}
e1,t1=gen(doc(S2,P2)); print("D' diags",[x[:2] for x in e1])
cmp(t0,{k:v for k,v in t1.items() if k in t0},"C08 unrelated modules", ignore=("models/__init__.py",))
print("  extra in D':", sorted(set(t1)-set(t0)))
# C16 meta flavours
trees={}
for m in MetaType:
    e,t=gen(doc(S,P),name="o_"+m.value,meta=m); trees[m.value]=t
pk=lambda t,pre: {k[len(pre):]:v for k,v in t.items() if k.startswith(pre)}
cmp(trees["none"], pk(trees["poetry"],"t_client/"), "C16 none vs poetry pkg", ignore=("py.typed",))
cmp(pk(trees["pdm"],"t_client/"), pk(trees["poetry"],"t_client/"), "C16 pdm vs poetry pkg")
cmp(pk(trees["setup"],"t_client/"), pk(trees["poetry"],"t_client/"), "C16 setup vs poetry pkg")
print("  non-pkg files:", {m:sorted(k for k in t if not k.startswith("t_client/")) for m,t in trees.items() if m!="none"})
# docstrings_on_attributes: AST minus docstrings
def strip_doc(src):
    t=ast.parse(src)
    for n in ast.walk(t):
        if hasattr(n,"body") and isinstance(n.body,list):
            n.body=[s for s in n.body if not (isinstance(s,ast.Expr) and isinstance(s.value,ast.Constant) and isinstance(s.value.value,str))] or [ast.Pass()]
    return ast.dump(t)
ed,td=gen(doc(S,P),name="o_d",docstrings_on_attributes=True)
bad=[k for k in t0 if k.endswith(".py") and strip_doc(t0[k].decode())!=strip_doc(td[k].decode())]
print("C16 docstrings_on_attributes AST-minus-docstrings diffs:", bad)
# generate_all_tags
ea,ta=gen(doc(S,P),name="o_t",generate_all_tags=True)
print("C16 all_tags extra:", sorted(set(ta)-set(t0)), "same module text:", ta.get("api/t1/get_a.py")==ta.get("api/t2/get_a.py")==t0.get("api/t1/get_a.py"))
cmp(t0,{k:v for k,v in ta.items() if k in t0},"C16 all_tags others")
# C15 order independence int/number
def allof(m1,m2): return {"X":{"type":"object","properties":{"p":m1}},"Y":{"type":"object","properties":{"p":m2}},"Z":{"allOf":[{"$ref":"#/components/schemas/X"},{"$ref":"#/components/schemas/Y"}]}}
for a,b in [({"type":"integer"},{"type":"number"}),({"type":"string"},{"type":"string","format":"date"}),({"type":"string","format":"uuid"},{"type":"string"}),({"type":"object","properties":{"q":{"type":"string"}}},{"type":"object","properties":{"r":{"type":"string"}}}),({"type":"string","const":"a"},{"type":"string","const":"b"})]:
    e1,t1=gen(doc(allof(a,b))); e2,t2=gen(doc(allof(b,a)))
    l1=[l.strip() for l in t1.get("models/z.py",b"").decode().splitlines() if l.strip().startswith("p:")]
    l2=[l.strip() for l in t2.get("models/z.py",b"").decode().splitlines() if l.strip().startswith("p:")]
    print("C15",a.get("format",a.get("type")),b.get("format",b.get("type")),"|",l1,len(e1),"|",l2,len(e2))
# C19 audit events summary
import collections
print("audit kinds:", collections.Counter(e[0] for e in events))
outside=[e for e in events if not any(s in e[1] for s in ("o","d.json"))]
print("sample:", events[:6])
