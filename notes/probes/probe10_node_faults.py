import sys, json, shutil, io, contextlib, copy, random, traceback, collections, time, os
from pathlib import Path
import openapi_python_client as opc
from openapi_python_client.config import Config, ConfigFile, MetaType
ROOT=str(Path(opc.__file__).parent)
def run(doc, name):
    p=Path(name+".json"); p.write_text(json.dumps(doc))
    shutil.rmtree(name, ignore_errors=True)
    cfg = Config.from_sources(ConfigFile(post_hooks=[]), MetaType.NONE, p, "utf-8", False, Path(name))
    try:
        with contextlib.redirect_stdout(io.StringIO()):
            errs = opc.generate(config=cfg)
        return None
    except RecursionError as ex:
        return "RecursionError"
    except Exception as ex:
        tb=traceback.extract_tb(ex.__traceback__)
        fr=[f for f in tb if f.filename.startswith(ROOT)]
        f=fr[-1] if fr else tb[-1]
        return "%s@%s:%s"%(type(ex).__name__, f.filename.replace(ROOT,""), f.name)
    finally:
        shutil.rmtree(name, ignore_errors=True); p.unlink(missing_ok=True)
def nodes(x, path=()):
    yield path
    if isinstance(x, dict):
        for k,v in x.items(): yield from nodes(v, path+(k,))
    elif isinstance(x, list):
        for i,v in enumerate(x): yield from nodes(v, path+(i,))
def setp(doc, path, val, delete=False):
    d=doc
    for k in path[:-1]: d=d[k]
    if delete:
        if isinstance(d, list): d.pop(path[-1])
        else: del d[path[-1]]
    else: d[path[-1]]=val
JUNK=[None, True, 0, -1, 1e999, "", "x", [], [None], {}, {"$ref":"#/components/schemas/Nope"}, {"$ref":"other.yaml#/x"}, {"$ref":"#/components/schemas/AModel"},
      {"type":"array"}, {"type":"string","enum":[1,"a"]}, {"type":"integer","default":"inf"}, {"enum":["a","A"]}, {"allOf":[{"type":"string"}]}, "#/components/schemas/AModel", ["a","a"], {"type":["string","null"],"nullable":True}]
base=json.loads(Path("/repo/end_to_end_tests/baseline_openapi_3.0.json").read_text())
allnodes=[p for p in nodes(base) if p]
print("nodes", len(allnodes))
shard=int(sys.argv[1]); nshard=int(sys.argv[2]); N=int(sys.argv[3])
rnd=random.Random(shard)
sites=collections.Counter(); ex={}
t0=time.time(); n=0
while n<N:
    p=rnd.choice(allnodes); d=copy.deepcopy(base)
    op=rnd.random()
    try:
        if op<0.15: setp(d,p,None,delete=True); j="<del>"
        else: j=rnd.choice(JUNK); setp(d,p,copy.deepcopy(j))
    except Exception: continue
    n+=1
    r=run(d,"f%d"%shard)
    if r: sites[r]+=1; ex.setdefault(r,(p,j))
print(json.dumps({"n":n,"sec":round(time.time()-t0,1),"sites":sites,"ex":{k:[list(map(str,v[0])),repr(v[1])[:60]] for k,v in ex.items()}}))
