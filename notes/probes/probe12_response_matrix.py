import sys, json, shutil, io, contextlib, importlib, asyncio
from pathlib import Path
import openapi_python_client as opc
from openapi_python_client.config import Config, ConfigFile, MetaType
import httpx
def gen(doc, name, **cf):
    p=Path("d.json"); p.write_text(json.dumps(doc))
    shutil.rmtree(name, ignore_errors=True)
    cfg = Config.from_sources(ConfigFile(post_hooks=[], **cf), MetaType.NONE, p, "utf-8", False, Path(name))
    with contextlib.redirect_stdout(io.StringIO()):
        try: errs = opc.generate(config=cfg)
        except Exception as ex: return "CRASH %s: %s"%(type(ex).__name__, str(ex)[:60])
    return errs
sys.path.insert(0,"/tmp/scratch")
N={"type":"object","properties":{"k":{"type":"string"}},"required":["k"]}
kinds={"model":({"$ref":"#/components/schemas/N"},{"k":"v"}),"inline":({"type":"object","properties":{"q":{"type":"integer"}}},{"q":1}),
 "arrm":({"type":"array","items":{"$ref":"#/components/schemas/N"}},[{"k":"v"}]),"arrs":({"type":"array","items":{"type":"string"}},["a"]),
 "str":({"type":"string"},"hello"),"int":({"type":"integer"},5),"bool":({"type":"boolean"},True),"date":({"type":"string","format":"date"},"2020-01-02"),
 "enum":({"type":"string","enum":["a","b"]},"a"),"union":({"oneOf":[{"$ref":"#/components/schemas/N"},{"type":"string"}]},{"k":"v"}),"unionm":({"oneOf":[{"$ref":"#/components/schemas/N"},{"$ref":"#/components/schemas/N2"}]},{"j":2}),
 "any":({},{"z":1}),"nullable":({"type":"string","nullable":True},None),"bin":({"type":"string","format":"binary"},"BYTES"),"none":(None,None)}
medias=["application/json","application/vnd.x+json","text/plain","application/octet-stream","application/xml","NONE"]
i=0
for kn,(sch,val) in kinds.items():
    row=[]
    for mt in medias:
        i+=1; name="o12_%d"%i
        resp={"description":"d"}
        if mt!="NONE":
            resp["content"]={mt:({"schema":sch} if sch is not None else {})}
        doc={"openapi":"3.0.3","info":{"title":"t","version":"1"},"paths":{"/x":{"get":{"operationId":"op","responses":{"200":resp,"404":{"description":"nf"}}}}},
             "components":{"schemas":{"N":N,"N2":{"type":"object","properties":{"j":{"type":"integer"}},"required":["j"]}}}}
        errs=gen(doc,name)
        if isinstance(errs,str): row.append(errs[:14]); continue
        warn="w" if errs else ""
        try:
            m=importlib.import_module(name+".api.default.op"); cl=importlib.import_module(name+".client")
        except Exception as ex:
            row.append("IMPEXC:"+type(ex).__name__); shutil.rmtree(name,ignore_errors=True); continue
        def h(r):
            if mt in ("application/json","application/vnd.x+json","application/xml"): return httpx.Response(200, content=json.dumps(val).encode(), headers={"content-type":mt,"x-m":"1"})
            if mt=="text/plain": return httpx.Response(200, text=val if isinstance(val,str) else json.dumps(val), headers={"x-m":"1"})
            if mt=="application/octet-stream": return httpx.Response(200, content=b"\x00\x01BYTES", headers={"content-type":mt})
            return httpx.Response(200)
        c=cl.Client(base_url="http://t/b", httpx_args={"transport":httpx.MockTransport(h)})
        try:
            r=m.sync_detailed(client=c)
            p=r.parsed
            d=p.to_dict() if hasattr(p,"to_dict") else ([x.to_dict() if hasattr(x,"to_dict") else x for x in p] if isinstance(p,list) else p)
            if hasattr(p,"payload"): d="File:"+repr(p.payload.read())[:12]
            s=(type(p).__name__+":"+repr(d))[:22]
            has_sync=hasattr(m,"sync")
            row.append(warn+s+("" if has_sync else "[nosync]"))
        except Exception as ex:
            row.append(warn+"EXC:"+type(ex).__name__)
        shutil.rmtree(name,ignore_errors=True)
    print("%-8s"%kn," | ".join("%-24s"%r for r in row))
print("cols:",medias)
