import sys, json, shutil, io, contextlib, importlib, datetime, uuid
from pathlib import Path
import openapi_python_client as opc
from openapi_python_client.config import Config, ConfigFile, MetaType
import httpx
def gen(doc, name="o7"):
    p=Path("d.json"); p.write_text(json.dumps(doc))
    shutil.rmtree(name, ignore_errors=True)
    cfg = Config.from_sources(ConfigFile(post_hooks=[]), MetaType.NONE, p, "utf-8", False, Path(name))
    with contextlib.redirect_stdout(io.StringIO()):
        errs = opc.generate(config=cfg)
    return errs
kinds={"str":({"type":"string"},"v-1"),"int":({"type":"integer"},41),"num":({"type":"number"},1.5),"bool":({"type":"boolean"},True),
 "date":({"type":"string","format":"date"},datetime.date(2020,1,2)),"dt":({"type":"string","format":"date-time"},datetime.datetime(2020,1,2,3,4,5,tzinfo=datetime.timezone.utc)),
 "uuid":({"type":"string","format":"uuid"},uuid.UUID(int=7)),"enum":({"type":"string","enum":["a","b"]},"ENUM"),"ienum":({"type":"integer","enum":[1,2]},"IENUM"),
 "arr":({"type":"array","items":{"type":"string"}},["x","y"]),"iarr":({"type":"array","items":{"type":"integer"}},[1,2]),
 "nstr":({"type":"string","nullable":True},"v-2"),"any":({},"anyv"),"obj":({"type":"object","properties":{"k":{"type":"string"}}},"OBJ"),
 "union":({"oneOf":[{"type":"integer"},{"type":"string"}]},5),"const":({"const":"cc"},"cc")}
sys.path.insert(0,"/tmp/scratch")
rows=[]
n=0
for loc in ("query","header","cookie","path"):
    for kn,(sch,val) in kinds.items():
        n+=1
        path="/x/{p}" if loc=="path" else "/x"
        doc={"openapi":"3.0.3","info":{"title":"t","version":"1"},"paths":{path:{"get":{"operationId":"op","parameters":[{"name":"p","in":loc,"required":True,"schema":sch}],"responses":{"200":{"description":"ok"}}}}}}
        name="o7_%d"%n
        errs=gen(doc,name)
        if not Path(name,"api/default/op.py").exists():
            rows.append((loc,kn,"REJECTED: "+(errs[0].detail or "")[:60])); continue
        m=importlib.import_module(name+".api.default.op"); cl=importlib.import_module(name+".client")
        v=val
        if val in ("ENUM","IENUM"):
            mod=importlib.import_module(name+".models"); E=getattr(mod,"OpP"); v=list(E)[0]
        if val=="OBJ":
            mod=importlib.import_module(name+".models"); v=getattr(mod,"OpP").from_dict({"k":"kv"})
        cap=[]
        def h(r): cap.append(r); return httpx.Response(200)
        c=cl.Client(base_url="http://t/b", httpx_args={"transport":httpx.MockTransport(h)})
        try:
            m.sync_detailed(v, client=c) if loc=="path" else m.sync_detailed(client=c, p=v)
            r=cap[0]
            obs={"query":str(r.url.query),"header":r.headers.get("p"),"cookie":r.headers.get("cookie"),"path":r.url.raw_path.decode()}[loc]
            rows.append((loc,kn,repr(obs)))
        except Exception as ex:
            rows.append((loc,kn,"EXC %s: %s"%(type(ex).__name__,str(ex)[:50])))
        shutil.rmtree(name, ignore_errors=True)
for r in rows: print("%-7s %-6s %s"%r)
