import sys, json, shutil, io, contextlib, ast, copy
from pathlib import Path
import openapi_python_client as opc
from openapi_python_client.config import Config, ConfigFile, MetaType
def gen(doc, name="o", meta=MetaType.SETUP, **cf):
    p=Path("d.json"); p.write_text(json.dumps(doc))
    shutil.rmtree(name, ignore_errors=True)
    cfg = Config.from_sources(ConfigFile(post_hooks=[], **cf), meta, p, "utf-8", False, Path(name))
    with contextlib.redirect_stdout(io.StringIO()):
        errs = opc.generate(config=cfg)
    tree={str(f.relative_to(name)):f.read_text() for f in sorted(Path(name).rglob("*.py"))}
    return errs, tree
class Shape(ast.NodeTransformer):
    def __init__(self): self.names={}
    def ren(self, s):
        return self.names.setdefault(s, "n%d"%len(self.names))
    def visit_Constant(self, n):
        if isinstance(n.value,(str,bytes)): return ast.Constant(value="§")
        return n
    def generic_visit(self, n):
        for f in ("id","arg","attr","name","module"):
            if isinstance(getattr(n,f,None), str): setattr(n,f,self.ren(getattr(n,f)))
        if isinstance(n, ast.alias):
            n.name=self.ren(n.name)
            if n.asname: n.asname=self.ren(n.asname)
        if isinstance(n, ast.keyword) and n.arg: n.arg=self.ren(n.arg)
        return super().generic_visit(n)
def shape(src):
    try: t=ast.parse(src)
    except SyntaxError as e: return "SYNTAX:"+str(e)
    return ast.dump(Shape().visit(t))
def doc_with(slotvals):
    g=lambda k,d: slotvals.get(k,d)
    return {"openapi":"3.0.3","info":{"title":g("title","T"),"version":g("version","1"),"description":g("idesc","x")},
     "paths":{g("path","/a/{id}"):{"post":{"operationId":g("opid","opA"),"tags":[g("tag","tg")],"summary":g("summary","s"),"description":g("odesc","d"),
        "parameters":[{"name":"id","in":"path","required":True,"schema":{"type":"integer"}},
                      {"name":g("qname","q"),"in":"query","schema":{"type":"string","default":g("qdef","dq"),"description":g("qdesc","qq")}},
                      {"name":g("hname","h"),"in":"header","schema":{"type":"string"}}],
        "requestBody":{"content":{"application/json":{"schema":{"$ref":"#/components/schemas/M"}}}},
        "responses":{"200":{"description":g("rdesc","r"),"content":{"application/json":{"schema":{"$ref":"#/components/schemas/M"}}}}}}}},
     "components":{"schemas":{"M":{"type":"object","title":g("mtitle","M"),"description":g("mdesc","md"),"properties":{
         g("pname","p"):{"type":"string","description":g("pdesc","pd"),"default":g("pdef","df"),"example":g("pex","ex")},
         "e":{"type":"string","enum":[g("eval","ev"),"zz"]},
         "c":{"type":"string","const":g("cval","cv")},
         }}}}}
base_err, base = gen(doc_with({}))
base_shape={k:shape(v) for k,v in base.items()}
slots=["title","version","idesc","opid","tag","summary","odesc","qname","qdef","qdesc","hname","rdesc","mdesc","pname","pdesc","pdef","pex","eval","cval"]
payloads={"squote":"CN'x","hash":"CN # x","newline":"CN\nimport os","brace":"CN{x}{{y","dquote":'CN"x',"triple":'CN"""x',"bslash":"CN\\x","bsq":'CN\\"x',"trail":"CNx\\"}
import collections
res=collections.defaultdict(dict)
for s in slots:
    # benign control first
    e,t=gen(doc_with({s:"CNbenign"}))
    ctrl={k:shape(v) for k,v in t.items()}
    for pn,pv in payloads.items():
        try:
            e,t=gen(doc_with({s:pv}))
        except Exception as ex:
            res[s][pn]="CRASH "+type(ex).__name__; continue
        sh={k:shape(v) for k,v in t.items()}
        if set(sh)!=set(ctrl): res[s][pn]="FILESET"+("+diag" if e else ""); continue
        bad=[k for k in sh if sh[k]!=ctrl[k]]
        res[s][pn]="ok" if not bad else ("SYN" if any(str(sh[k]).startswith("SYNTAX") for k in bad) else "SHAPE")+":"+bad[0].split("/")[-1]
print("%-8s"%"slot", " ".join("%-9s"%p for p in payloads))
for s in slots: print("%-8s"%s, " ".join("%-9s"%res[s][p][:9] for p in payloads))
