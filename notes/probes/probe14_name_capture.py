import sys, json, shutil, io, contextlib, importlib, ast, keyword, builtins
from pathlib import Path
import openapi_python_client as opc
from openapi_python_client.config import Config, ConfigFile, MetaType
import httpx
def gen(doc, name, **cf):
    p=Path("d.json"); p.write_text(json.dumps(doc))
    shutil.rmtree(name, ignore_errors=True)
    cfg = Config.from_sources(ConfigFile(post_hooks=[], **cf), MetaType.NONE, p, "utf-8", False, Path(name))
    with contextlib.redirect_stdout(io.StringIO()):
        try: errs = opc.generate(config=cfg)
        except Exception as ex: return "CRASH %s"%type(ex).__name__
    return errs
sys.path.insert(0,".")
def model_doc(N):
    return {"openapi":"3.0.3","info":{"title":"t","version":"1"},"paths":{},"components":{"schemas":{
      "Inner":{"type":"object","properties":{"k":{"type":"string"}}},
      "M":{"type":"object","required":["other"],"properties":{
          N:{"type":"string"},"other":{"type":"integer"},"lst":{"type":"array","items":{"$ref":"#/components/schemas/Inner"}},
          "un":{"oneOf":[{"$ref":"#/components/schemas/Inner"},{"type":"string","format":"date"}]},"inner":{"$ref":"#/components/schemas/Inner"}},
          "additionalProperties":{"type":"integer"}}}}}
def op_doc(N, loc, body):
    params=[{"name":N,"in":loc,"required":loc=="path","schema":{"type":"string"}},{"name":"other","in":"query","schema":{"type":"string"}},{"name":"hh","in":"header","schema":{"type":"string"}},{"name":"cc","in":"cookie","schema":{"type":"string"}}]
    path="/x/{%s}"%N if loc=="path" else "/x"
    op={"operationId":"op","parameters":params,"responses":{"200":{"description":"ok","content":{"application/json":{"schema":{"type":"object","properties":{"r":{"type":"string"}}}}}}}}
    if body: op["requestBody"]={"content":{"application/json":{"schema":{"type":"object","properties":{"b":{"type":"string"}}}}}}
    return {"openapi":"3.0.3","info":{"title":"t","version":"1"},"paths":{path:{"post":op}}}
def model_obs(name, N):
    M=importlib.import_module(name+".models").M
    v={N:"val",'other':3,"lst":[{"k":"a"}],"un":"2020-01-02","inner":{"k":"b"},"extra":7}
    o=M.from_dict(v); e=o.to_dict(); v2={"other":4}
    e2=M.from_dict(v2).to_dict()
    ren=lambda d:{("§" if k==N else k):x for k,x in d.items()}
    return (ren(e)==ren(v), ren(e2)==ren(v2))
def op_obs(name, N, loc, body):
    m=importlib.import_module(name+".api.default.op"); cl=importlib.import_module(name+".client")
    import inspect
    sig=inspect.signature(m.sync_detailed)
    cap=[]
    def h(r): cap.append(r); return httpx.Response(200,json={"r":"x"})
    c=cl.Client(base_url="http://t/b", httpx_args={"transport":httpx.MockTransport(h)})
    # find python param for N: the one not in known set
    known={"client","body","other","hh","cc"}
    cand=[p for p in sig.parameters if p not in known]
    if len(cand)!=1: return ("SIG?",list(sig.parameters))
    kw={cand[0]:"val","other":"ov","hh":"hv","cc":"cv","client":c}
    if body:
        B=importlib.import_module(name+".models").OpBody; kw["body"]=B.from_dict({"b":"bv"})
    r=m.sync_detailed(**kw)
    q=cap[0]
    got={"path":q.url.path,"query":sorted(q.url.params.multi_items()),"hh":q.headers.get("hh"),"hN":q.headers.get(N) if loc=="header" else None,"cookie":q.headers.get("cookie"),"body":q.content.decode(),"parsed":r.parsed.to_dict() if r.parsed else None}
    exp={"path":"/b/x/val" if loc=="path" else "/b/x","query":sorted(([(N,"val")] if loc=="query" else [])+[("other","ov")]),"hh":"hv","hN":"val" if loc=="header" else None,
         "cookie":"; ".join(([N+"=val"] if loc=="cookie" else [])+["cc=cv"]),"body":'{"b":"bv"}' if body else "","parsed":{"r":"x"}}
    got["body"]=got["body"].replace(" ","")
    # cookie order-insensitive
    got["cookie"]=sorted((got["cookie"] or "").split("; ")); exp["cookie"]=sorted(exp["cookie"].split("; "))
    bad=[k for k in exp if got[k]!=exp[k]]
    return ("ok",) if not bad else ("DIFF",bad,{k:got[k] for k in bad})
# harvest candidate names
gen(model_doc("neutral_zq"),"ref_m"); gen(op_doc("neutral_zq","query",True),"ref_o")
names=set()
for f in list(Path("ref_m").rglob("*.py"))+list(Path("ref_o").rglob("*.py")):
    t=ast.parse(f.read_text())
    for n in ast.walk(t):
        for a in ("id","arg","attr","name"):
            v=getattr(n,a,None)
            if isinstance(v,str): names.add(v)
        if isinstance(n,ast.alias): names.add((n.asname or n.name).split(".")[0])
names={n for n in names if n.isidentifier()} | set(keyword.kwlist) | set(keyword.softkwlist)
names -= {"neutral_zq","other","lst","un","inner","hh","cc","k","b","r"}
names=sorted(names)
print(len(names),"candidates")
i=0; findings=[]
for N in names:
    i+=1
    # model
    nm="c_m%d"%i
    r=gen(model_doc(N),nm)
    try:
        if isinstance(r,str): res=r
        elif not Path(nm,"models/m.py").exists(): res="REJ"
        else:
            ok=model_obs(nm,N); res="ok" if all(ok) else "DIFF%s"%(ok,)
    except Exception as ex: res="EXC:%s:%s"%(type(ex).__name__,str(ex)[:50])
    if res!="ok": findings.append(("model",N,res))
    shutil.rmtree(nm,ignore_errors=True)
    for loc in ("query","header","cookie","path"):
        for body in (False,True):
            if loc in ("header","cookie","path") and body: continue
            nm="c_o%d_%s%d"%(i,loc,body)
            r=gen(op_doc(N,loc,body),nm)
            try:
                if isinstance(r,str): res=(r,)
                elif not Path(nm,"api/default/op.py").exists(): res=("REJ",[(e.detail or "")[:40] for e in r])
                else: res=op_obs(nm,N,loc,body)
            except Exception as ex: res=("EXC:%s:%s"%(type(ex).__name__,str(ex)[:60]),)
            if res[0]!="ok": findings.append((loc+("+body" if body else ""),N,res))
            shutil.rmtree(nm,ignore_errors=True)
print(len(findings),"non-ok")
for f in findings: print(f)
