import sys, json, shutil, io, contextlib, importlib, enum, typing
from pathlib import Path
import openapi_python_client as opc
from openapi_python_client.config import Config, ConfigFile, MetaType
def gen(doc, name, **cf):
    p=Path("d.json"); p.write_text(json.dumps(doc))
    shutil.rmtree(name, ignore_errors=True)
    cfg = Config.from_sources(ConfigFile(post_hooks=[], **cf), MetaType.NONE, p, "utf-8", False, Path(name))
    with contextlib.redirect_stdout(io.StringIO()):
        try: errs = opc.generate(config=cfg)
        except Exception as ex: return "CRASH %s: %s"%(type(ex).__name__, str(ex)[:60])
    return errs
sys.path.insert(0,"/tmp/scratch")
cases={"plain":["a","b"],"case":["a","A"],"punct":["a b","a_b"],"punct2":["a-b","a.b","a b"],"digit":["1a","2b","a1"],"empty":["","x"],"sym":["+","-","*"],"uni":["é","e"],"long":["x"*300,"y"],
 "dq":['a"b',"c"],"bs":["a\\b","c"],"nl":["a\nb","c"],"null":["a",None],"onlynull":[None],"int":[1,2,-1,0],"intdup":[1,1],"strdup":["a","a"],"bool":[True,False],"mixed":[1,"a"],"float":[1.5,2.5],"kw":["class","None","def"],"under":["_a","__b","a_"]}
i=0
for le in (False,True):
  for cn,vals in cases.items():
    i+=1; name="o11_%d"%i
    M={"type":"object","properties":{"p":{"enum":vals}},"required":["p"]}
    if all(isinstance(v,str) or v is None for v in vals): M["properties"]["p"]["type"]="string"
    doc={"openapi":"3.0.3","info":{"title":"t","version":"1"},"paths":{},"components":{"schemas":{"M":M}}}
    errs=gen(doc,name,literal_enums=le)
    tag="%s %-8s"%("L" if le else "E",cn)
    if isinstance(errs,str): print(tag,errs); continue
    if not Path(name,"models/m.py").exists(): print(tag,"REJECTED",[(e.detail or e.header)[:70] for e in errs][:1]); shutil.rmtree(name,ignore_errors=True); continue
    try:
        mods=importlib.import_module(name+".models"); Mc=mods.M
    except Exception as ex:
        print(tag,"IMPORT-EXC",type(ex).__name__,str(ex)[:60]); shutil.rmtree(name,ignore_errors=True); continue
    res=[]
    for v in vals:
        try:
            o=Mc.from_dict({"p":v}); e=o.to_dict()["p"]
            res.append("ok" if (e==v and type(e)==type(v)) else "BAD(%r->%r)"%(v,e))
        except Exception as ex: res.append("EXC(%r:%s)"%(v,type(ex).__name__))
    unl=[]
    for v in ("zz-unlisted", 99, None, 1.5):
        if v in vals: continue
        try: o=Mc.from_dict({"p":v}); unl.append("ACCEPTED(%r)"%(v,))
        except Exception as ex: unl.append("rej")
    nm="?"
    MP=getattr(mods,"MP",None)
    if isinstance(MP,type) and issubclass(MP,enum.Enum): nm=len(list(MP))
    elif MP is not None: nm=len(typing.get_args(MP))
    print(tag,"members=%s/%d"%(nm,len(set(v for v in vals if v is not None))),res,unl)
    shutil.rmtree(name,ignore_errors=True)
