import sys, json, shutil, io, contextlib, importlib, datetime, uuid, inspect, typing
from pathlib import Path
import openapi_python_client as opc
from openapi_python_client.config import Config, ConfigFile, MetaType
def gen(doc, name, **cf):
    p=Path("d.json"); p.write_text(json.dumps(doc))
    shutil.rmtree(name, ignore_errors=True)
    cfg = Config.from_sources(ConfigFile(post_hooks=[], **cf), MetaType.NONE, p, "utf-8", False, Path(name))
    with contextlib.redirect_stdout(io.StringIO()):
        errs = opc.generate(config=cfg)
    return errs
N={"type":"object","properties":{"k":{"type":"string"}},"required":["k"]}
kinds={"str":({"type":"string"},"s"),"int":({"type":"integer"},4),"num":({"type":"number"},1.5),"numi":({"type":"number"},2),"bool":({"type":"boolean"},False),
 "date":({"type":"string","format":"date"},"2020-01-02"),"dt":({"type":"string","format":"date-time"},"2020-01-02T03:04:05+00:00"),
 "uuid":({"type":"string","format":"uuid"},"00000000-0000-0000-0000-000000000007"),"enum":({"type":"string","enum":["a","b"]},"b"),"ienum":({"type":"integer","enum":[1,2]},2),
 "arr":({"type":"array","items":{"type":"string"}},["x"]),"arrm":({"type":"array","items":{"$ref":"#/components/schemas/N"}},[{"k":"1"}]),
 "any":({},{"z":[1]}),"obj":({"type":"object","properties":{"k":{"type":"string"}}},{"k":"v","extra":1}),"ref":({"$ref":"#/components/schemas/N"},{"k":"v"}),
 "union":({"oneOf":[{"type":"integer"},{"type":"string"}]},"u"),"unionm":({"oneOf":[{"$ref":"#/components/schemas/N"},{"type":"array","items":{"type":"integer"}}]},[1,2]),
 "const":({"const":"cc"},"cc"),"null":({"type":"null"},None),
 "dictint":({"type":"object","additionalProperties":{"type":"integer"}},{"a":1}),
 "arrdate":({"type":"array","items":{"type":"string","format":"date"}},["2020-01-02"]),
 "arrunion":({"type":"array","items":{"oneOf":[{"$ref":"#/components/schemas/N"},{"type":"string"}]}},[{"k":"v"},"s"]),
}
sys.path.insert(0,"/tmp/scratch")
def plain(x):
    if type(x) in (str,int,float,bool,type(None)): return True
    if type(x) is list: return all(plain(i) for i in x)
    if type(x) is dict: return all(type(k) is str and plain(v) for k,v in x.items())
    return False
out=[]
i=0
for le in (False,True):
  for kn,(sch,val) in kinds.items():
    for req in (True,False):
        for nul in (False,True):
            if kn in ("null","any") and nul: continue
            i+=1
            s=dict(sch)
            if nul:
                if "$ref" in s: s={"nullable":True,"allOf":[s]}
                elif "oneOf" in s: s=dict(s,nullable=True)
                elif "const" in s: s={"oneOf":[s,{"type":"null"}]}
                else: s=dict(s,nullable=True)
            M={"type":"object","properties":{"p":s}}
            if req: M["required"]=["p"]
            doc={"openapi":"3.0.3","info":{"title":"t","version":"1"},"paths":{},"components":{"schemas":{"M":M,"N":N}}}
            name="o8_%d"%i
            errs=gen(doc,name,literal_enums=le)
            tag="%s %-8s %s %s"%("L" if le else "E",kn,"req" if req else "opt","nul" if nul else "   ")
            if not Path(name,"models/m.py").exists():
                out.append(tag+" REJECTED "+str([(e.detail or e.header)[:50] for e in errs])); shutil.rmtree(name,ignore_errors=True); continue
            try:
                Mc=getattr(importlib.import_module(name+".models"),"M")
            except Exception as ex:
                out.append(tag+" IMPORT-EXC %s"%ex); shutil.rmtree(name,ignore_errors=True); continue
            cases=[("val",{"p":val})]
            if nul: cases.append(("null",{"p":None}))
            if not req: cases.append(("absent",{}))
            res=[]
            for cn,v in cases:
                try:
                    o=Mc.from_dict(v); e=o.to_dict(); o2=Mc.from_dict(e)
                    ok = (e==v) and plain(e) and (o2==o)
                    res.append(cn+(":ok" if ok else ":BAD(%r)"%(e,)))
                except Exception as ex:
                    res.append(cn+":EXC(%s %s)"%(type(ex).__name__,str(ex)[:40]))
            sig=inspect.signature(Mc).parameters.get("p")
            hint=Mc.__annotations__.get("p")
            out.append(tag+" "+" ".join(res)+"  | default="+("<req>" if sig.default is inspect._empty else type(sig.default).__name__)+" ann="+str(hint)[:60])
            shutil.rmtree(name,ignore_errors=True)
bad=[o for o in out if ("BAD" in o or "EXC" in o or "REJECTED" in o)]
print(len(out),"cells;",len(bad),"with anomalies")
for o in bad: print(o)
print("--- sample ok rows")
for o in out[:6]: print(o)
