import sys, json, shutil, io, contextlib, importlib, datetime, uuid, inspect, typing, math
from pathlib import Path
import openapi_python_client as opc
from openapi_python_client.config import Config, ConfigFile, MetaType
def gen(doc, name, **cf):
    p=Path("d.json"); p.write_text(json.dumps(doc))
    shutil.rmtree(name, ignore_errors=True)
    cfg = Config.from_sources(ConfigFile(post_hooks=[], **cf), MetaType.NONE, p, "utf-8", False, Path(name))
    with contextlib.redirect_stdout(io.StringIO()):
        try: errs = opc.generate(config=cfg)
        except Exception as ex: return "CRASH %s"%type(ex).__name__
    return errs
kinds={"str":{"type":"string"},"int":{"type":"integer"},"num":{"type":"number"},"bool":{"type":"boolean"},
 "date":{"type":"string","format":"date"},"dt":{"type":"string","format":"date-time"},"uuid":{"type":"string","format":"uuid"},
 "enum":{"type":"string","enum":["a","b"]},"ienum":{"type":"integer","enum":[1,2]},"const":{"const":"cc"},"any":{},
 "union":{"oneOf":[{"type":"integer"},{"type":"string","format":"date"}]},"arr":{"type":"array","items":{"type":"string"}},"obj":{"type":"object","properties":{"k":{"type":"string"}}},
 "nstr":{"type":"string","nullable":True}}
vals={"s":"a","s2":"zz","n5":5,"f15":1.5,"f30":3.0,"T":True,"sTrue":"true","s5":"5","date":"2020-01-02","dt":"2020-01-02T03:04:05Z","uuid":"00000000-0000-0000-0000-000000000007",
 "cc":"cc","i1":1,"lst":["x"],"dct":{"k":"v"},"inf":"inf","big":1e999,"neg":-3,"empty":"","quote":'q"r'}
sys.path.insert(0,"/tmp/scratch")
i=0
print("%-6s"%"", " ".join("%-7s"%v for v in vals))
for kn,sch in kinds.items():
    row=[]
    for vn,v in vals.items():
        i+=1; name="o9_%d"%i
        M={"type":"object","properties":{"p":dict(sch,default=v)}}
        doc={"openapi":"3.0.3","info":{"title":"t","version":"1"},"paths":{},"components":{"schemas":{"M":M}}}
        errs=gen(doc,name)
        if isinstance(errs,str): row.append(errs[:7]); shutil.rmtree(name,ignore_errors=True); continue
        if not Path(name,"models/m.py").exists(): row.append("rej"); shutil.rmtree(name,ignore_errors=True); continue
        try:
            Mc=getattr(importlib.import_module(name+".models"),"M")
            o=Mc(); d=o.p
            e=o.to_dict().get("p","<absent>")
            row.append(("%r"%(d,))[:7] if True else "")
        except Exception as ex:
            row.append("X:"+type(ex).__name__[:5])
        shutil.rmtree(name,ignore_errors=True)
    print("%-6s"%kn, " ".join("%-7s"%r for r in row))
