import sys, json, shutil, io, contextlib, hashlib, os
from pathlib import Path
import openapi_python_client as opc
from openapi_python_client.config import Config, ConfigFile, MetaType
def snap(root):
    return {str(f.relative_to(root)):hashlib.sha1(f.read_bytes()).hexdigest()[:8] for f in sorted(Path(root).rglob("*")) if f.is_file()}
def run(doc, out, meta, overwrite):
    p=Path("d13.json"); p.write_text(json.dumps(doc))
    cfg = Config.from_sources(ConfigFile(post_hooks=[]), meta, p, "utf-8", overwrite, Path(out))
    with contextlib.redirect_stdout(io.StringIO()):
        errs = opc.generate(config=cfg)
    return [(e.level.name,(e.detail or e.header)[:60]) for e in errs]
def doc(schemas, ops, title="t"):
    ok={"200":{"description":"ok"}}
    return {"openapi":"3.0.3","info":{"title":title,"version":"1"},"paths":{p:{"get":{"operationId":o,"tags":[t],"responses":ok}} for p,o,t in ops},"components":{"schemas":{s:{"type":"object","properties":{"x":{"type":"string"}}} for s in schemas}}}
D1=doc(["A","B"],[("/a","getA","t1"),("/b","getB","t2")]); D2=doc(["B","C"],[("/b","getB","t2"),("/c","getC","t3")])
root=Path("sand"); shutil.rmtree(root,ignore_errors=True); root.mkdir(); (root/"sentinel.txt").write_text("s")
out=root/"out"
print(run(D1,out,MetaType.POETRY,False))
(out/"NOTES.md").write_text("user"); (out/"t_client"/"custom.py").write_text("# user")
s1=snap(root)
print("no-overwrite:",run(D2,out,MetaType.POETRY,False), "untouched:", snap(root)==s1)
print("overwrite:",run(D2,out,MetaType.POETRY,True))
s2=snap(root)
fresh=root/"fresh"; run(D2,fresh,MetaType.POETRY,False); sf=snap(fresh)
got={k[len("out/"):]:v for k,v in s2.items() if k.startswith("out/")}
print("extra vs fresh:", sorted(set(got)-set(sf)), "missing:", sorted(set(sf)-set(got)), "changed:", [k for k in sf if k in got and got[k]!=sf[k]])
# meta change over existing
print("overwrite setup over poetry:",run(D2,out,MetaType.SETUP,True)); got={k[len("out/"):] for k in snap(root) if k.startswith("out/")}
fr2=root/"fresh2"; run(D2,fr2,MetaType.SETUP,False); print(" extra vs fresh:", sorted(got-set(snap(fr2))))
# hostile names
H=doc(["../../evil","/abs/path","a/b"],[("/x","../../../evil_op","../../tagesc"),("/y","/abs/op","/abs/tag")],title="../../../tt/../x")
cwd=os.getcwd(); os.chdir(root)
try:
    p=Path("h.json"); p.write_text(json.dumps(H))
    cfg = Config.from_sources(ConfigFile(post_hooks=[]), MetaType.POETRY, p, "utf-8", False, None)
    with contextlib.redirect_stdout(io.StringIO()) as so:
        errs=opc.generate(config=cfg)
    print("hostile diags:",[(e.level.name,(e.detail or e.header)[:50]) for e in errs])
finally: os.chdir(cwd)
print(sorted(k for k in snap(root) if not k.startswith(("out/","fresh"))))
