import sys, json, shutil, io, contextlib, time, collections
from pathlib import Path
import openapi_python_client as opc
from openapi_python_client.config import Config, ConfigFile, MetaType
mon = sys.monitoring
TOOL = 3
mon.use_tool_id(TOOL, "verif")
hits = collections.Counter()
ROOT = str(Path(opc.__file__).parent)
def on_start(code, off):
    fn = code.co_filename
    if fn.startswith(ROOT):
        mon.set_local_events(TOOL, code, mon.events.LINE)
    return mon.DISABLE
def on_line(code, line):
    hits[(code.co_filename, line)] += 1
    return mon.DISABLE   # record first hit only
mon.register_callback(TOOL, mon.events.PY_START, on_start)
mon.register_callback(TOOL, mon.events.LINE, on_line)
mon.set_events(TOOL, mon.events.PY_START)
doc=json.loads(Path("d.json").read_text())
p=Path("d.json")
for i in range(3):
    shutil.rmtree("o2", ignore_errors=True)
    cfg = Config.from_sources(ConfigFile(post_hooks=[]), MetaType.NONE, p, "utf-8", False, Path("o2"))
    t=time.time()
    with contextlib.redirect_stdout(io.StringIO()):
        errs = opc.generate(config=cfg)
    print("gen", round(time.time()-t,3), len(hits))
byfile = collections.Counter(k[0].replace(ROOT,"") for k in hits)
for f,n in sorted(byfile.items()): print(n, f)
