import sys, time, importlib, asyncio
t0=time.time()
sys.path.insert(0, "/tmp/scratch")
import httpx
t1=time.time()
seen=[]
def hook(ev, args):
    if ev=="import": seen.append(args[0])
sys.addaudithook(hook)
m = importlib.import_module("o.api.default.op_a")
cl = importlib.import_module("o.client")
t2=time.time()
reqs=[]
def handler(request):
    reqs.append(request)
    return httpx.Response(200, json={"x":"y"})
c = cl.AuthenticatedClient(base_url="http://verif.test/base", token="TOK", httpx_args={"transport": httpx.MockTransport(handler)})
from o.types import File
from io import BytesIO
r = m.sync_detailed(5, client=c, body=File(payload=BytesIO(b"abc")), x_h=True, q_s=["a","b"])
print(r)
rq=reqs[0]; print(rq.method, rq.url, dict(rq.headers), rq.content)
t3=time.time()
print("httpx import %.2f pkg import %.2f call %.3f"%(t1-t0,t2-t1,t3-t2))
print(len(seen), [s for s in seen if not s.startswith(("o.","httpx","_"))][:40])
