import sys, json, shutil, traceback, ast, py_compile, io, contextlib
from pathlib import Path
import openapi_python_client as opc
from openapi_python_client.config import Config, ConfigFile, MetaType

def gen(doc, name="o", meta=MetaType.NONE, **cf):
    p=Path("d.json"); p.write_text(json.dumps(doc))
    shutil.rmtree(name, ignore_errors=True)
    cfg = Config.from_sources(ConfigFile(post_hooks=[], **cf), meta, p, "utf-8", False, Path(name))
    with contextlib.redirect_stdout(io.StringIO()):
        try:
            errs = opc.generate(config=cfg)
        except Exception as e:
            return "CRASH %s: %s" % (type(e).__name__, str(e)[:200])
    bad=[]
    for f in Path(name).rglob("*.py"):
        try: ast.parse(f.read_text())
        except SyntaxError as e: bad.append((str(f), str(e)))
    return [ (e.level.name, e.header, (e.detail or "")[:150]) for e in errs], bad

def base(schemas=None, paths=None, info=None):
    return {"openapi":"3.0.3","info":info or {"title":"t","version":"1"},"paths":paths or {}, "components":{"schemas":schemas or {}}}

def show(title, r):
    print("----", title); print("   ", r)

# C06 crashes
show("enum a/A dup key", gen(base({"E":{"type":"string","enum":["a","A"]}})))
show("int default inf", gen(base({"M":{"type":"object","properties":{"x":{"type":"integer","default":"inf"}}}})))
show("int default nan", gen(base({"M":{"type":"object","properties":{"x":{"type":"integer","default":"nan"}}}})))
show("float default nan", gen(base({"M":{"type":"object","properties":{"x":{"type":"number","default":"nan"}}}})))
# scalar doc
for d in (5, None, [], "x"):
    p=Path("d.json"); p.write_text(json.dumps(d))
    try:
        from openapi_python_client.parser import GeneratorData
        cfg = Config.from_sources(ConfigFile(post_hooks=[]), MetaType.NONE, p, "utf-8", False, Path("o"))
        shutil.rmtree("o", ignore_errors=True)
        print("scalar doc", repr(d), opc.generate(config=cfg))
    except Exception as e:
        print("scalar doc", repr(d), "CRASH", type(e).__name__, e)
# C05
show("prop name with backslash-quote", gen(base({"M":{"type":"object","properties":{'a\\"b':{"type":"string"}}}})))
show("prop name trailing backslash", gen(base({"M":{"type":"object","properties":{'a\\':{"type":"string"}}}})))
show("model desc triple quote", gen(base({"M":{"type":"object","description":'x """ y',"properties":{'a':{"type":"string"}}}})))
show("prop desc triple quote", gen(base({"M":{"type":"object","properties":{'a':{"type":"string","description":'x """ y'}}}})))
show("version quote", gen(base(info={"title":"t","version":'1"x'}), meta=MetaType.SETUP))
show("string default with quote", gen(base({"M":{"type":"object","properties":{'a':{"type":"string","default":'q"r'}}}})))
print(Path("o/models/m.py").read_text().split("class M")[1][:400])
# C09
show("a-b and a_b", gen(base({"M":{"type":"object","properties":{'a-b':{"type":"string"},'a_b':{"type":"string"}}}})))
