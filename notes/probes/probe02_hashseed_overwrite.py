import sys, json, shutil, io, contextlib, hashlib, os
from pathlib import Path
import openapi_python_client as opc
from openapi_python_client.config import Config, ConfigFile, MetaType
def gen(doc, name="o", meta=MetaType.NONE, **cf):
    p=Path("d.json"); p.write_text(json.dumps(doc))
    shutil.rmtree(name, ignore_errors=True)
    cfg = Config.from_sources(ConfigFile(post_hooks=[], **cf), meta, p, "utf-8", False, Path(name))
    with contextlib.redirect_stdout(io.StringIO()):
        errs = opc.generate(config=cfg)
    return [ (e.level.name, e.header, (e.detail or "")[:150]) for e in errs]
ok={"200":{"description":"ok"}}
doc={"openapi":"3.0.3","info":{"title":"t","version":"1"},"paths":{
  "/a":{"get":{"operationId":"get-thing","responses":ok}},
  "/b":{"get":{"operationId":"get_thing","responses":ok}},
  "/c":{"post":{"operationId":"multi","requestBody":{"content":{"application/json":{"schema":{"type":"array","items":{"type":"string"}}},"application/octet-stream":{"schema":{"type":"string","format":"binary"}}}},"responses":ok}},
 },
 "components":{"schemas":{
   "A":{"type":"object","properties":{"b":{"$ref":"#/components/schemas/B"},"c":{"$ref":"#/components/schemas/C"},"d":{"$ref":"#/components/schemas/D"}}},
   "B":{"type":"object","properties":{"x":{"type":"string"}}},
   "C":{"type":"object","properties":{"x":{"type":"string"}}},
   "D":{"type":"object","properties":{"x":{"type":"string"}}},
 }}}
print(gen(doc))
print(sorted(str(p) for p in Path("o/api").rglob("*.py")))
h=hashlib.sha256()
for f in sorted(Path("o").rglob("*")):
    if f.is_file(): h.update(str(f).encode()); h.update(f.read_bytes())
print("HASH", h.hexdigest()[:16])
print([l for l in Path("o/models/a.py").read_text().splitlines() if "import" in l and ".." in l][:12])
